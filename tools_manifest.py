"""regenerates MANIFEST.json from the property table (run by hand after editing; the file is committed)"""
import json, sys
sys.path.insert(0, "/verif")
props = [json.loads(l) for l in open("/verif/properties.jsonl")]
TEXT = {
 "C01": "Bounded symbolic model checking of the real event loop: for every listed configuration and every real-valued sample vector and tie-break, conservation (ids 1..N once each, reported populations = actual, exit monotone) is checked after each of the first K events; the solver partitions the sample space so the concrete checks cover all orderings inside the bound.",
 "C02": "Bounded symbolic model checking: clock monotonicity, event-at-scheduled-date, no event in the past and every record's ordering/arithmetic are solver obligations (linear real arithmetic) discharged under each path condition, for all sample values and orderings within K events.",
 "C03": "Bounded symbolic model checking: record chains of every customer are checked after every event on all paths within K events; node continuity is concrete per path, time continuity is a solver obligation.",
 "C04": "Bounded symbolic model checking: server/customer bijection and stickiness after every event, non-overlap of per-server intervals as disjunctive solver obligations, utilisation as a quotient compared with the monitor's own integral for a symbolic horizon T.",
 "C05": "Bounded symbolic model checking: idle-server-while-waiting is checked after every event on all paths; zero wait on arrival to a free server and 'a start needs a freed server' are solver obligations.",
 "C06": "Bounded symbolic model checking: the admission rule is re-computed by the monitor per batch member from the pre-event populations and compared with what happened, on every arrival of every path; capacity bounds after every event.",
 "C07": "Bounded symbolic model checking: blocked-iff-full at every completion, FIFO unblocking against the monitor's own queue, never blocked while space, time_blocked obligations, for all orderings and ties within K events.",
 "C08": "Bounded symbolic model checking: at every choice and every service start the chosen customer is compared with the prescribed one (priority, then FIFO/LIFO/SIRO by the monitor's own arrival sequence); record-level no-overtaking as solver obligations.",
 "C09": "Bounded symbolic model checking of every routing decision against a declarative specification, plus solver-decided unit obligations on random_choice for all uniform draws u in [0,1) and all probability vectors on a grid.",
 "C10": "Bounded symbolic model checking: arrival instants equal partial sums of the logged sample symbols, batch sizes equal the chosen sizes, service durations equal the logged symbols (solver equalities); validity: with unconstrained symbols the solver shows an error is raised exactly on the negative side.",
 "C11": "Bounded symbolic model checking: no priority inversion after every event, victim choice (latest start among lowest priority) as solver obligations, resume/restart/resample bookkeeping as linear equalities over the logged service symbols.",
 "C12": "Bounded symbolic model checking against the declared timetable: on-duty count at every event as a disjunction over timetable segments, shift-change and slot instants, overtime/interruption handling; generator unit obligations with symbolic boundaries and offset.",
 "C13": "Bounded symbolic model checking: renege instant = arrival + logged patience symbol, nobody waits past patience, no served customer reneges; baulking decisions compared with u < q for the symbolic draw u and probability q.",
 "C14": "Bounded symbolic model checking with a symbolic horizon T: on every path that returns, executed dates < T <= pending dates; any exception inside Ciw on a feasible path is a violation; max_customers stopping rule against the monitor's own counts.",
 "C15": "Bounded self-composition: three runs (fresh network, unrelated run in between, re-used Network) over the same symbolic seeded stream in one path; field-wise equality of records, clock and tracker history are solver obligations.",
 "C16": "Bounded self-composition: single run to T vs split run T1<T (and T1<T2<T) over the same symbols; equality of records, clock, busy times and utilisation (quotient, non-linear obligation) decided by the solver for all split points.",
 "C17": "Bounded symbolic model checking of all seven trackers against the recomputed configuration after every event; state_probabilities decided as a unit obligation on symbolic histories and windows (quotients compared by cross-multiplication in z3's non-linear arithmetic).",
 "C18": "Bounded symbolic model checking of simulate_until_deadlock against an independent greatest-fixpoint oracle after every event: never continues past a true deadlock, never stops without one; times_to_deadlock equalities as solver obligations.",
 "C19": "Bounded symbolic model checking: the monitor integrates min(1,R/k) per customer and the solver checks received work = requirement at each departure; relational check PS(inf) vs FIFO c=1 over the same symbols.",
}
REF = {p["id"]: "5 (%s)" % p["id"] for p in props}
checks = []
for p in props:
    pid = p["id"]
    if pid == "C20":
        continue
    checks.append({
        "property_id": pid,
        "quick_cmd": "./run check %s --tier quick" % pid,
        "thorough_cmd": "./run check %s --tier thorough" % pid,
        "evidence_file": "/verif/evidence/%s.json" % pid,
        "replay_cmd_template": "./run replay {path}",
        "engine": "simsym",
        "level_claimed": {"category": "model_checking", "text": TEXT[pid], "design_ref": "DESIGN.md section 5, %s; engine section 2.1" % pid},
        "level_note": "Bounded: K events per row from the empty (or stated loaded) system (K per row is listed in the evidence; sweep rows take their K from the committed path-count table vf/combo_k.json), the listed configuration rows and feature pairs only, dates as mathematical reals (no IEEE rounding), random()/distributions as arbitrary streams; trusted: the monitors, the proxy semantics (selftest: pinned differential + witness replay on the real code), z3 (cvc5 cross-check on samples). ties=forced rows assume unforced date coincidences do not occur. Recorded defects (known_findings.json) are reported as KNOWN-FINDING and do not fail the check.",
        "technique": "dynamic symbolic execution of the real ciw code (z3 LRA): exhaustive path enumeration within K events, assertions discharged per path, counterexamples replayed with floats",
    })
m = {
 "version": 1,
 "setup_cmd": "./run setup",
 "hooks": {"guard": "CIW_VERIF", "enable": "none needed: observation goes through ciw's public extension points (node_class=, arrival_node_class=, Distribution subclasses) and harness-process rebinding of the `random` names; /repo carries no instrumentation",
           "baseline_off_cmd": "cd /repo && /venv/bin/python -m pytest -ra -q -p no:cacheprovider --timeout=900 --continue-on-collection-errors",
           "source_commits": [], "add_only": True},
 "engines": [
  {"name": "simsym", "path": "/verif/vf/engine.py", "serves_properties": [c["property_id"] for c in checks],
   "kind_free_text": "dynamic symbolic executor for the real Ciw code: float-subclass proxies carrying linear forms over z3 Reals, DFS over feasible branch decisions with re-execution, solver-discharged monitor obligations, model -> float replay on the unmodified code"},
  {"name": "crosshair-kernels", "path": "/verif/kernels", "serves_properties": ["C09"],
   "kind_free_text": "CrossHair (z3-backed symbolic execution) contracts on ciw.auxiliary.random_choice with symbolic probabilities; thorough tier of C09 only, cross-check: a counterexample is replayed on the real function before it is reported, 'not confirmed' is inconclusive"}
 ],
 "checks": checks,
 "not_applicable": [
  {"property_id": "C20", "reason": "exact mode lives in Decimal(str(float)) conversions and context rounding inside the C decimal module; CrossHair realises at that boundary and a real-arithmetic proxy passed to Decimal() silently becomes its dummy double, so a solver encoding would have to assume the exactness the property asserts"}
 ],
 "notes": "Single entry point ./run (bash -> /verif/.venv/bin/python -m vf.cli). Exit 0 held / 1 VIOLATION (replay-confirmed, not a listed known finding) / 2 harness error or inconclusive. known_findings.json lists genuine defects recorded rather than repaired and the fix: commits made in /repo."
}
json.dump(m, open("/verif/MANIFEST.json", "w"), indent=1)
print("checks", len(checks))
