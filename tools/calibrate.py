"""Measures, on the current tree, the number of paths of every GEN feature-pair row for K = 3..7 and both tie modes
and writes vf/combo_k.json.  The checks pick, per row, the largest K whose path count stays under the tier's cap, so
the table fixes the bounds of the sweep rows deterministically (it is committed; re-run by hand when rows change)."""
import json
import multiprocessing as mp
import os
import sys

sys.path.insert(0, "/verif")
from vf import runner as R, combos, props  # noqa: E402

CAP = 4000


def measure(args):
    params, ties = args
    out = {}
    for K in range(3, 8):
        if K >= 5 and len(out) >= 2:
            ks = sorted(int(k) for k in out)
            growth = max(2.0, out[str(ks[-1])] / max(1, out[str(ks[-2])]))
            if out[str(ks[-1])] * growth > CAP:   # predicted to exceed the largest cap: do not pay for the run
                out["pred%d" % K] = int(out[str(ks[-1])] * growth)
                break
        task = dict(cfg=("GEN", params), K=K, ties=ties, mons=["C01"], prop="CAL", split_depth=None, max_paths=CAP + 1, sample_paths=0)
        r = R._worker(task)
        if "fatal" in r:
            out[str(K)] = -1
            break
        out[str(K)] = r["paths"]
        if r["paths"] > CAP or not r["exhausted"]:
            break
    return R.cfg_id(("GEN", params)), ties, out


def main():
    rows = []
    seen = set()
    for extra in (None, {"c1": 2}):
        for r in props.combo_rows(9, allow=props._F7 + props._F10 + props._F13, extra=extra, raw=True):
            p = r["cfg"][1]
            cid = R.cfg_id(("GEN", p))
            if cid in seen:
                continue
            seen.add(cid)
            rows.append((p, "forced"))
            rows.append((p, "all"))
    table = {}
    path = os.path.join("/verif", "vf", "combo_k.json")
    with mp.get_context("fork").Pool(16) as pool:
        for n, (cid, ties, out) in enumerate(pool.imap_unordered(measure, rows, chunksize=1)):
            table.setdefault(cid, {})[ties] = out
            if n % 50 == 0:
                print(n, "/", len(rows), flush=True)
                json.dump(table, open(path, "w"), indent=0, sort_keys=True)
    json.dump(table, open(path, "w"), indent=0, sort_keys=True)
    print("rows", len(rows))


main()
