#!/bin/bash
# usage: tools/seedcheck.sh <patch.diff> <PROP> [<PROP>...]   -- applies the patch to /repo, runs the quick checks, reverts
set -u
PATCH="$1"; shift
cd /verif
git -C /repo diff --quiet || { echo "/repo has uncommitted changes"; exit 3; }
git -C /repo apply "$PATCH" || { echo "patch does not apply"; exit 3; }
trap "git -C /repo checkout -- . ; git -C /repo status --short | head -3; git -C /verif checkout -- evidence/" EXIT
for p in "$@"; do
  ./run check "$p" --tier "${TIER:-quick}" > /tmp/seedcheck.$p.log 2>&1
  rc=$?
  echo "== $p exit $rc: $(grep -c '^VIOLATION' /tmp/seedcheck.$p.log) violations"
  grep -E "^VIOLATION|^  monitor|^  [a-zA-Z]|HARNESS|KNOWN" /tmp/seedcheck.$p.log | cut -c1-300 | head -${LINES_MAX:-12}
done
