#!/bin/bash
# For every seeded change: apply it to /repo, run the quick check of the property it breaks, undo it.
# Writes /verif/seeded/RESULTS.md.  Evidence files are restored from git afterwards (they must describe the unchanged tree).
set -u
cd /verif
OUT=/verif/seeded/RESULTS.md
PAT="${1:-S}"
git -C /repo diff --quiet || { echo "/repo has uncommitted changes"; exit 3; }
if [ "$PAT" = "S" ]; then
  echo "| seeded change | property | check exit | violations reported (monitors) |" > $OUT
  echo "|---|---|---|---|" >> $OUT
fi
for d in seeded/${PAT}*/; do
  name=$(basename $d)
  prop=$(python3 -c "import json,sys; print(json.load(open('$d/meta.json'))['breaks_property'])")
  if ! git -C /repo apply "/verif/$d/patch.diff" 2>/dev/null; then echo "| $name | $prop | patch does not apply | |" >> $OUT; continue; fi
  ./run check $prop --tier quick > /tmp/seedreg.$name.log 2>&1
  rc=$?
  git -C /repo checkout -- .
  mons=$(grep -E "^  monitor=" /tmp/seedreg.$name.log | sed 's/  monitor=\([^ ]*\).*/\1/' | sort -u | head -4 | tr '\n' ' ')
  nv=$(grep -c '^VIOLATION' /tmp/seedreg.$name.log)
  echo "| $name | $prop | $rc | $nv: $mons |" >> $OUT
  echo "$name $prop rc=$rc violations=$nv $mons"
done
git -C /repo status --short | head -3
git -C /verif checkout -- evidence/
