"""developer: run many rows in parallel, print per-row summary and violation signatures"""
import sys, json, time, multiprocessing as mp
from . import runner as R

def main(rows):
    tasks = [dict(cfg=(n, p), K=K, ties=t, mons=m.split(","), prop="dev", split_depth=None, exc_is_violation=True, max_paths=int(sys.argv[1]) if len(sys.argv)>1 else 20000) for (n,p,K,t,m) in rows]
    with mp.get_context("fork").Pool(16) as pool:
        for r in pool.imap_unordered(R._worker, tasks):
            if "fatal" in r: print("FATAL", r["fatal"][-1500:]); continue
            cid = R.cfg_id(r["task"]["cfg"])
            print("%-70s K=%d %s paths=%d crashed=%d q=%d obl=%d wall=%.1f exh=%s val=%d" % (cid, r["task"]["K"], r["task"]["ties"], r["paths"], r["crashed"], r["queries"], r["obligations"], r["wall"], r["exhausted"], r["validated"]))
            if r["errors"]: print("   ERR", r["errors"][:2])
            if r["crash_msgs"]: print("   CRASH", r["crash_msgs"][:2])
            if r["mismatches"]: print("   MISMATCH", json.dumps(r["mismatches"][0], default=str)[:600])
            seen=set()
            for v in r["violations"]:
                if v["monitor"] in seen: continue
                seen.add(v["monitor"])
                print("   VIOL", v["monitor"], "|", v["msg"][:300], "| ev", v["events"])
            if r["sig_counts"]: print("   sig", r["sig_counts"])
            sys.stdout.flush()
