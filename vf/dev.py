"""developer entry: run one row with chosen monitors, single process, print stats"""
import sys, json, time
from . import engine as E, harness as H, runner as R, configs as C

def main():
    name = sys.argv[1]; params = json.loads(sys.argv[2]); K = int(sys.argv[3]); ties = sys.argv[4]; mons = sys.argv[5].split(",")
    task = dict(cfg=(name, params), K=K, ties=ties, mons=mons, prop="dev", split_depth=None, exc_is_violation=("C14" in mons))
    if ":" in name:
        task["custom"] = name; task["cfg"] = (name.split(":")[1], params); task["mons"] = []
    t=time.time()
    r = R._worker(task)
    if "fatal" in r: print(r["fatal"]); return
    for k in ("paths","complete","truncated","crashed","queries","solver_s","obligations","discharged","concrete_checks","assumed_distinct","events","validated","wall","exhausted"):
        print(k, r[k], end="; ")
    print()
    print("stats", r["stats"])
    print("errors", r["errors"][:3], "crash", r["crash_msgs"][:2], "mismatch", r["mismatches"][:1])
    for v in r["violations"][:6]:
        print("VIOL", v["monitor"], v["msg"], "\n    events", v["events"], "\n    values", {k:x for k,x in (v["values"] or {}).items()})
    print("sig", r["sig_counts"])
main()
