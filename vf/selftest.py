"""Validation of the engine itself (DESIGN.md 2.1 'Validating the engine itself'):
 1. unit tests of the proxy semantics against CPython floats;
 2. reachability twin: a deliberately false monitor must come back violated and replay on the real code;
 3. pinned differential: symbols pinned to random dyadic values (VERIF_SEED) -> one symbolic path whose
    records, evaluated under the model, must equal a plain float run of the unmodified code;
 4. second solver: sampled obligations (PC and negated assertion, SMT-LIB2) re-decided by the cvc5 binary.
"""
import json
import math
import os
import random
import subprocess
import sys
import tempfile
import time
from fractions import Fraction

from . import engine as E
from . import harness as H
from . import runner as R
from . import monitors as M
from .engine import EQ, LE, LT


class Twin(H.Monitor):
    """deliberately false: 'no service record is ever written'"""
    prop = "TWIN"

    def post_event(self, node, nxt, ctx):
        for i in H.all_inds(self.Q):
            self.ck(not any(r.record_type == "service" for r in i.data_records), "no_service_record", "a service record exists")


M.Twin = Twin


class Pinned(E.Explorer):
    """every fresh symbol is pinned to a random dyadic value: exactly one feasible path"""

    def __init__(self, rng, **kw):
        super().__init__(**kw)
        self.rng = rng
        self.pins = {}

    def fresh_real(self, name, lo=0, hi=None, lo_strict=False, hi_strict=False):
        k = self.counter.get(name, 0)
        nm = "%s_%d" % (name, k)
        x = super().fresh_real(name, lo=lo, hi=hi, lo_strict=lo_strict, hi_strict=hi_strict)
        if nm not in self.pins:
            if hi is not None:
                v = Fraction(self.rng.randrange(1, 1024), 1024) * Fraction(hi)
            elif name.startswith("T"):
                v = Fraction(self.rng.randrange(2048, 8192), 512)
            else:
                v = Fraction(self.rng.randrange(1, 2048), 512)
            self.pins[nm] = v
        v = self.pins[nm]
        self._add(self.var(nm) == E.z3.RealVal(str(v)))
        self.witness = None
        return x


def unit_tests():
    ex = E.Explorer(ties="all")
    E.set_explorer(ex)
    ex.start()
    x = ex.fresh_real("x", lo=0)
    y = ex.fresh_real("y", lo=0)
    inf = float("inf")
    fails = []

    def t(name, cond):
        if not cond:
            fails.append(name)

    t("isinstance float", isinstance(x, float))
    t("isinf", not math.isinf(x) and not math.isnan(x))
    t("x<inf", (x < inf) is True and (x > inf) is False and (inf > x) is True and (x == inf) is False)
    t("x+inf", x + inf == inf and inf + x == inf and x - inf == -inf)
    t("radd", isinstance(3 + x, E.SymReal) and (3 + x).lin.c == 3)
    t("rsub", (5 - x).lin.t == {"x_0": Fraction(-1)} and (5 - x).lin.c == 5)
    t("mul", (x * 2).lin.t == {"x_0": Fraction(2)} and (0.5 * x).lin.t == {"x_0": Fraction(1, 2)})
    t("div", (x / 4).lin.t == {"x_0": Fraction(1, 4)})
    t("x-x", (x - x) == 0 and not (x - x).lin.t)
    t("False+x", isinstance(False + x, E.SymReal))
    t("cmp False", isinstance(False >= x, E.SymBool) or (False >= x) in (True, False))
    t("str cmp", (x == "resample") is False and (x != "resample") is True and (x == None) is False)  # noqa: E711
    t("is False", (x is False) is False)
    t("sum", isinstance(sum([x, y]), E.SymReal))
    t("min", True)
    z = x + y
    ex.check(LE(x, z), "T.le")          # valid since y >= 0
    ex.check(EQ(z - y, x), "T.eq")
    try:
        ex.check(LT(x, z), "T.lt")      # not valid: y may be 0
        fails.append("lt should fail")
    except E.Violation as v:
        t("model", v.model is not None and Fraction(v.model["y_0"]) == 0)
    try:
        hash(x)
        fails.append("hash should be refused")
    except E.Limitation:
        pass
    try:
        x * y
        fails.append("nonlinear mul should be refused")
    except E.Limitation:
        pass
    # int(): deterministic floor enumeration
    u = ex.fresh_real("u", lo=0, hi=1, hi_strict=True)
    ex._add(ex.var("u_0") >= E.z3.RealVal("0.5"))
    ex.witness = None
    k = int(u * 4)
    t("int floor", k in (2, 3))
    r = (x + 1) / (y + 1)
    t("ratio", isinstance(r, E.SymRatio))
    # concrete relations
    t("EQ conc", EQ(0.1 + 0.2, 0.3) is True and LE(1.0, 1.0 + 1e-12) is True and LT(1.0, 1.0 + 1e-12) is False)
    return fails


def twin():
    task = dict(cfg=("Q1", {"c": 1}), K=4, ties="forced", mons=["Twin"], prop="TWIN", split_depth=None)
    r = R._worker(task)
    if "fatal" in r:
        return ["twin fatal: " + r["fatal"][-300:]]
    if not r["violations"]:
        return ["reachability twin: the false monitor was not violated"]
    v = r["violations"][0]
    rv, events, missing, _ = R._run_concrete(task, v["values"])
    if rv is None or rv.mon != v["monitor"]:
        return ["reachability twin: the counterexample did not replay on the real code"]
    return []


PIN_ROWS = [("Q1", {"c": 2}), ("T2", {}), ("L2", {"p": 0.5}), ("P1", {"c": 1, "pre": "resume"}), ("P1", {"c": 2, "pre": "resample"}),
            ("SC", {"pre": "restart"}), ("SC", {}), ("SL", {"capacitated": True, "pre": "resume"}), ("RN", {"jockey": True}),
            ("PS", {"capacity": 2, "threshold": 2}), ("PS", {}), ("CCa", {"nodes": 2}), ("CCw", {}), ("RT", {"router": "jsq"}),
            ("BK", {"kind": "sym"}), ("S1", {"c": 2, "cap_": 1})]


def pinned(seed, n_per_row, K=14):
    rng = random.Random(seed)
    fails, done = [], 0
    for name, params in PIN_ROWS:
        for rep in range(n_per_row):
            task = dict(cfg=(name, params), K=K, ties="all", mons=[], prop="PIN", split_depth=None)
            ex = Pinned(rng, ties="all", sample_paths=1)
            ex.record_fn = R.record_values
            E.set_explorer(ex)
            H.install_stubs()
            exhausted = ex.explore(R.make_path_fn(task))
            if ex.npaths != 1 or not ex.samples:
                fails.append("pinned run of %s explored %d paths (errors %s, crashes %s)" % (R.cfg_id(task["cfg"]), ex.npaths, ex.errors[:1], ex.crash_msgs[:1]))
                continue
            s = ex.samples[0]
            vals = {k: "%d/%d" % (v.numerator, v.denominator) for k, v in ex.pins.items()}
            rv, events, missing, recs = R._run_concrete(task, vals)
            if rv is not None or events != s["events"] or not R.records_agree(s["records"], recs) or (s["records"] is not None and len(s["records"]) != len(recs or [])):
                fails.append("pinned differential mismatch on %s: symbolic %s vs concrete %s" % (R.cfg_id(task["cfg"]), s["events"], events))
            done += 1
    return fails, done


def second_solver(limit=40):
    """dump obligations from a few rows and re-decide them with the cvc5 binary"""
    dumps = []
    for name, params, mons in (("T2", {}, ["C02"]), ("P1", {"c": 1, "pre": "resume"}, ["C11", "C02"]), ("RN", {}, ["C13"]), ("PS", {"capacity": 2}, ["C19"])):
        task = dict(cfg=(name, params), K=5, ties="forced", mons=mons, prop="SMT", split_depth=None, smt_dump_every=23)
        r = R._worker(task)
        if "fatal" in r:
            return ["second solver: " + r["fatal"][-300:]], 0
        dumps += r["smt_dump"]
    dumps = dumps[:limit]
    fails, agree = [], 0
    for d in dumps:
        with tempfile.NamedTemporaryFile("w", suffix=".smt2", delete=False, dir=os.environ.get("TMPDIR", "/tmp")) as f:
            f.write("(set-logic QF_LRA)\n" + d + "\n")
            path = f.name
        try:
            out = subprocess.run(["cvc5", "--lang", "smt2", path], capture_output=True, text=True, timeout=60).stdout
        except Exception as e:
            out = "error %s" % e
        finally:
            os.unlink(path)
        if "(error" in out or "error" in out.split("\n")[0]:
            fails.append("cvc5 error on a dumped obligation: %s" % out[:200])
        elif out.strip().split("\n")[0] == "unsat":
            agree += 1   # z3 discharged it (unsat), cvc5 agrees
        else:
            fails.append("cvc5 answered %r on an obligation z3 discharged" % out.strip()[:80])
    if not dumps:
        fails.append("second solver: no obligation dumped")
    return fails, agree


def main(argv):
    quick = "--quick" in argv
    seed = int(os.environ.get("VERIF_SEED", "0") or 0)
    t0 = time.time()
    H.install_stubs()
    print("ciw from", H.check_ciw_origin())
    fails = []
    f = unit_tests()
    print("proxy unit tests: %s" % ("ok" if not f else f))
    fails += f
    f = twin()
    print("reachability twin: %s" % ("violated and replayed, as required" if not f else f))
    fails += f
    f, n = pinned(seed, 1 if quick else 6)
    print("pinned differential: %d runs compared with plain float runs: %s" % (n, "ok" if not f else f[:3]))
    fails += f
    f, n = second_solver(12 if quick else 40)
    print("second solver (cvc5 binary): %d obligations re-decided: %s" % (n, "agree" if not f else f[:3]))
    fails += f
    print("selftest wall %.1fs" % (time.time() - t0))
    if fails:
        for x in fails[:10]:
            print("SELFTEST-FAIL:", x)
        return 2
    return 0
