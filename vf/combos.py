"""pairwise feature combinations over the composable GEN configuration (DESIGN.md section 4, row X2)"""
import itertools

FEATURES = {
    # name: (params, needs)   needs: requirements on the base (topology / classes)
    "c2": (dict(c1=2), {}),
    "cinf": (dict(c1="inf"), {}),
    "cap1": (dict(cap1=1), {}),
    "syscap": (dict(syscap=2), {}),
    "batch": (dict(batch=[0, 2, 3]), {}),
    "lifo": (dict(discipline="LIFO"), {}),
    "siro": (dict(discipline="SIRO"), {}),
    "prio": (dict(classes=2, prio=True), {}),
    "pre_resume": (dict(classes=2, prio=True, pre="resume"), {}),
    "pre_restart": (dict(classes=2, prio=True, pre="restart"), {}),
    "pre_resample": (dict(classes=2, prio=True, pre="resample"), {}),
    "pre_reroute": (dict(classes=2, prio=True, pre="reroute"), {}),
    "sc": (dict(sched=["sc", False]), {}),
    "sc_resume": (dict(sched=["sc2", "resume"]), {}),
    "sc_restart": (dict(sched=["sc2", "restart"]), {}),
    "sc_resample": (dict(sched=["sc", "resample"]), {}),
    "sc_reroute": (dict(sched=["sc2", "reroute"]), {}),
    "sl": (dict(sched=["sl", False, False]), {}),
    "slcap": (dict(sched=["sl", True, "resume"]), {}),
    "renege": (dict(reneging="exit"), {}),
    "jockey": (dict(reneging="jockey"), {"topo": "tandem"}),
    "jockeyfull": (dict(reneging="jockey", cap2=0, a2=True), {"topo": "tandem"}),
    "renege2": (dict(reneging="mixed", classes=2, p=1.0), {"topo": "tandem"}),
    "baulk": (dict(baulk="sym"), {}),
    "block": (dict(topo="tandem", cap2=0), {"topo": "tandem"}),
    "block1": (dict(topo="tandem", cap2=1, a2=True), {"topo": "tandem"}),
    "selfloop": (dict(topo="self", p=0.5, cap1=1), {"topo": "self"}),
    "loop": (dict(topo="loop", p=0.5, cap1=1, cap2=1), {"topo": "loop"}),
    "ccafter": (dict(classes=2, ccafter=True), {}),
    "ccwait": (dict(classes=2, ccwait=True), {}),
    "ps": (dict(ps=True), {}),
    "jsq": (dict(topo="fork"), {"topo": "fork"}),
    "offset": (dict(offset=0.5), {}),
}

GROUPS = {  # features of one group exclude each other
    "servers": ["c2", "cinf", "sc", "sc_resume", "sc_restart", "sc_resample", "sc_reroute", "sl", "slcap", "ps"],
    "disc": ["lifo", "siro"],
    "prio": ["prio", "pre_resume", "pre_restart", "pre_resample", "pre_reroute"],
    "topo": ["block", "block1", "selfloop", "loop", "jockey", "jockeyfull", "renege2", "jsq"],
    "ren": ["renege", "jockey", "jockeyfull", "renege2"],
    "cc": ["ccafter", "ccwait"],
}

INVALID = [
    {"ps", "prio"}, {"ps", "pre_resume"}, {"ps", "pre_restart"}, {"ps", "pre_resample"}, {"ps", "pre_reroute"},
    {"ps", "renege"}, {"ps", "jockey"}, {"ps", "lifo"}, {"ps", "siro"}, {"ps", "ccwait"}, {"ps", "block"}, {"ps", "block1"}, {"ps", "selfloop"}, {"ps", "loop"},
    {"cinf", "lifo"}, {"cinf", "siro"}, {"cinf", "prio"}, {"cinf", "pre_resume"}, {"cinf", "pre_restart"}, {"cinf", "pre_resample"}, {"cinf", "pre_reroute"},
    {"cinf", "renege"}, {"cinf", "jockey"}, {"cinf", "ccwait"}, {"cinf", "cap1"}, {"cinf", "jockeyfull"}, {"cinf", "renege2"},
    {"ps", "jockeyfull"}, {"ps", "renege2"}, {"renege2", "ccafter"}, {"renege2", "ccwait"},
    {"sl", "pre_resume"}, {"sl", "pre_restart"}, {"sl", "pre_resample"}, {"sl", "pre_reroute"},
    {"slcap", "pre_resume"}, {"slcap", "pre_restart"}, {"slcap", "pre_resample"}, {"slcap", "pre_reroute"},
    {"offset", "c2"}, {"offset", "cinf"}, {"offset", "ps"},
]


def group_of(f):
    for g, fs in GROUPS.items():
        if f in fs:
            yield g


def compatible(f1, f2):
    if {f1, f2} in INVALID:
        return False
    g1, g2 = set(group_of(f1)), set(group_of(f2))
    if g1 & g2:
        return False
    return True


def merge(fs, load):
    params = {}
    topo = "single"
    for f in fs:
        p, needs = FEATURES[f]
        params.update(p)
        if "topo" in needs:
            topo = needs["topo"]
    params.setdefault("topo", topo)
    if params["topo"] == "single" and topo != "single":
        params["topo"] = topo
    params.update(load)
    if "offset" in fs and "sched" not in params:
        return None
    return params


def pairs(include=None, exclude=(), load=None, singles=True):
    """feature sets (1 or 2 features) as GEN params; `include`: at least one feature must be in this set"""
    load = load or dict(burst=2, first=2)
    names = [f for f in FEATURES if f not in exclude]
    out = []
    if singles:
        for f in names:
            if include is None or f in include:
                p = merge([f], load)
                if p is not None:
                    out.append(((f,), p))
    for f1, f2 in itertools.combinations(names, 2):
        if include is not None and f1 not in include and f2 not in include:
            continue
        if not compatible(f1, f2):
            continue
        p = merge([f1, f2], load)
        if p is not None:
            out.append(((f1, f2), p))
    return out
