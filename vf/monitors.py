"""Oracles for C01..C19 (DESIGN.md sections 3 and 5).

Every monitor computes what it needs from the raw lists (never from Ciw's cached counters) and
from the harness trace.  Date relations (EQ/LE/LT) are solver obligations; everything else is
concrete on a path.  Monitors never fork the exploration.
"""
import math
from fractions import Fraction

from . import engine as E
from .engine import EQ, LE, LT, AnyOf, AllOf, RatioEQ, isnum, is_sym, SymReal, SymRatio
from .harness import (Monitor, here, finite, is_ps, in_service, served, waiting, onduty, all_inds, ciw)

isinf = math.isinf
nan = float("nan")


def isnan(x):
    return isinstance(x, float) and not is_sym(x) and x != x


def numeric_dest(d):
    return isinstance(d, int) and not isinstance(d, bool)


# ==============================================================================================
class C01(Monitor):
    """customer conservation"""
    prop = "C01"

    def at_init(self):
        self.exit_ids = set()

    def _state(self, where):
        Q = self.Q
        tot = Q.nodes[0].number_of_individuals
        ids = []
        for n in Q.transitive_nodes:
            H = here(n)
            self.ck(n.number_of_individuals == len(H), "node_count",
                    lambda: "%s: node %s reports %s customers, %s are there" % (where, n.id_number, n.number_of_individuals, len(H)))
            self.ck(len(n.all_individuals) == len(H), "all_individuals")
            for i in H:
                ids.append(i.id_number)
                self.ck(i.node == n.id_number, "ind_node",
                        lambda: "%s: customer %s is in node %s but says node %s" % (where, i.id_number, n.id_number, i.node))
        X = Q.nodes[-1]
        xids = [i.id_number for i in X.all_individuals]
        self.ck(X.number_of_individuals == len(xids), "exit_count")
        allids = sorted(ids + xids)
        self.ck(allids == list(range(1, tot + 1)), "ids",
                lambda: "%s: ids present %s, arrivals created %s" % (where, allids, tot))
        xs = set(xids)
        self.ck(self.exit_ids <= xs, "exit_monotone",
                lambda: "%s: customers %s left the exit node" % (where, sorted(self.exit_ids - xs)))
        self.exit_ids = xs
        if ids:
            self.seen("c01_in_nodes")
        if xids:
            self.seen("c01_at_exit")

    def post_event(self, node, nxt, ctx):
        self._state("after event %d" % self.Q.tr.event_no)

    def at_end(self):
        self._state("at return")


# ==============================================================================================
class C02(Monitor):
    """causal monotone time + record arithmetic"""
    prop = "C02"

    def at_init(self):
        self.checked = {}
        self.last_now = None

    def pre_event(self, node, ctx):
        Q = self.Q
        now = Q.current_time
        self.ck(isnum(now), "clock_numeric", lambda: "clock is %r" % (now,))
        self.ck(EQ(node.next_event_date, now), "event_at_scheduled_date",
                lambda: "event executed at %s but scheduled for %s" % (now, node.next_event_date))
        if self.last_now is not None:
            self.ck(LE(self.last_now, now), "clock_monotone",
                    lambda: "clock went from %s back to %s" % (self.last_now, now))
        self.last_now = now

    def post_event(self, node, nxt, ctx):
        Q = self.Q
        now = Q.current_time
        for n in Q.active_nodes:
            d = n.next_event_date
            if isinstance(d, float) and not is_sym(d) and isinf(d) and d > 0:
                continue
            self.ck(LE(now, d), "no_event_in_past",
                    lambda: "after event %d at %s, %s has its next event at %s" % (Q.tr.event_no, now, n, d))
        self.records(now)

    def at_end(self):
        self.records(None)

    def records(self, now):
        for ind in all_inds(self.Q):
            recs = ind.data_records
            k0 = self.checked.get(ind.id_number, 0)
            for rec in recs[k0:]:
                self.record(rec, now)
            self.checked[ind.id_number] = len(recs)

    def record(self, r, now):
        t = r.record_type
        who = lambda: "customer %s node %s %s record %s" % (r.id_number, r.node, t, tuple(r))
        if t == "service":
            for f in ("arrival_date", "service_start_date", "service_end_date", "exit_date", "waiting_time", "service_time", "time_blocked"):
                self.ck(isnum(getattr(r, f)), "rec_numeric", lambda: "%s: field %s not a number" % (who(), f))
            self.ck(LE(r.arrival_date, r.service_start_date), "rec_arrival_le_start", who)
            self.ck(LE(r.service_start_date, r.service_end_date), "rec_start_le_end", who)
            self.ck(LE(r.service_end_date, r.exit_date), "rec_end_le_exit", who)
            if now is not None:
                self.ck(LE(r.exit_date, now), "rec_exit_le_now", who)
            self.ck(EQ(r.waiting_time, r.service_start_date - r.arrival_date), "rec_waiting_time", who)
            self.ck(EQ(r.service_time, r.service_end_date - r.service_start_date), "rec_service_time", who)
            self.ck(EQ(r.time_blocked, r.exit_date - r.service_end_date), "rec_time_blocked", who)
            self.seen("c02_service_records")
        elif t == "interrupted service":
            for f in ("arrival_date", "service_start_date", "exit_date", "waiting_time", "service_time"):
                self.ck(isnum(getattr(r, f)), "int_numeric", lambda: "%s: field %s not a number" % (who(), f))
            self.ck(LE(r.arrival_date, r.service_start_date), "int_arrival_le_start", who)
            self.ck(LE(r.service_start_date, r.exit_date), "int_start_le_exit", who)
            self.ck(LE(0, r.service_time), "int_service_time_nonneg", who)
            self.ck(EQ(r.waiting_time, r.service_start_date - r.arrival_date), "int_waiting_time", who)
            if now is not None:
                self.ck(LE(r.exit_date, now), "int_exit_le_now", who)
            self.seen("c02_interrupted_records")
        elif t == "renege":
            for f in ("arrival_date", "exit_date", "waiting_time"):
                self.ck(isnum(getattr(r, f)), "renege_numeric", lambda: "%s: field %s not a number" % (who(), f))
            self.ck(LE(r.arrival_date, r.exit_date), "renege_arrival_le_exit", who)
            self.ck(EQ(r.waiting_time, r.exit_date - r.arrival_date), "renege_waiting_time", who)
            if now is not None:
                self.ck(LE(r.exit_date, now), "renege_exit_le_now", who)
            self.seen("c02_renege_records")
        elif t in ("baulk", "rejection"):
            self.ck(isnum(r.arrival_date) and isnum(r.exit_date), "term_numeric", who)
            self.ck(EQ(r.arrival_date, r.exit_date), "term_arrival_eq_exit", who)
            if now is not None:
                self.ck(LE(r.exit_date, now), "term_exit_le_now", who)
            self.seen("c02_terminal_records")
        else:
            self.ck(False, "rec_type", who)


# ==============================================================================================
class C03(Monitor):
    """journey continuity"""
    prop = "C03"

    def at_init(self):
        self.checked = {}

    def terminal(self, ind, r, k):
        """does record r (the k-th of ind) send the customer to the exit?"""
        t = r.record_type
        if t in ("baulk", "rejection"):
            return True
        if t == "service":
            return r.destination == -1
        if t == "interrupted service":
            return numeric_dest(r.destination) and r.destination == -1
        if t == "renege":
            return self.renege_target(ind, r, k) == -1
        return False

    def renege_target(self, ind, r, k):
        j = sum(1 for x in ind.data_records[:k] if x.record_type == "renege")
        tg = self.Q.tr.jockey.get(ind.id_number, [])
        return tg[j] if j < len(tg) else None

    def points_to(self, ind, r, k):
        t = r.record_type
        if t == "service":
            return r.destination
        if t == "interrupted service":
            return r.destination if numeric_dest(r.destination) else r.node
        if t == "renege":
            return self.renege_target(ind, r, k)
        return None

    def post_event(self, node, nxt, ctx):
        self.run()

    def at_end(self):
        self.run()

    def run(self):
        Q = self.Q
        tr = Q.tr
        exit_ids = {i.id_number for i in Q.nodes[-1].all_individuals}
        for n in Q.nodes[1:]:
            for ind in n.all_individuals:
                recs = ind.data_records
                idn = ind.id_number
                at_exit = idn in exit_ids
                arr = tr.arrivals.get(idn)
                k0 = self.checked.get(idn, 0)
                for k in range(k0, len(recs)):
                    r = recs[k]
                    who = lambda: "customer %s record %d %s" % (idn, k, tuple(r))
                    if k == 0:
                        if arr is not None:
                            self.ck(r.node == arr["node"], "first_node",
                                    lambda: "%s: first record at node %s, arrived at node %s" % (who(), r.node, arr["node"]))
                            self.ck(EQ(r.arrival_date, arr["t"]), "first_arrival_date", who)
                    else:
                        p = recs[k - 1]
                        pt = p.record_type
                        if pt in ("baulk", "rejection"):
                            self.ck(False, "record_after_terminal", who)
                        elif pt == "service" or (pt == "interrupted service" and numeric_dest(p.destination)) or pt == "renege":
                            dest = self.points_to(ind, p, k - 1)
                            self.ck(r.node == dest, "chain_node",
                                    lambda: "%s at node %s, previous record named destination %s" % (who(), r.node, dest))
                            self.ck(EQ(r.arrival_date, p.exit_date), "chain_time",
                                    lambda: "%s begins at %s, previous ended at %s" % (who(), r.arrival_date, p.exit_date))
                        else:  # interruption that stays at the node
                            self.ck(r.node == p.node, "interrupted_same_node", who)
                            self.ck(EQ(r.arrival_date, p.arrival_date), "interrupted_same_arrival", who)
                    if r.record_type in ("baulk", "rejection"):
                        self.ck(len(recs) == 1, "terminal_only_record", who)
                    if r.record_type == "service":
                        self.ck(numeric_dest(r.destination), "service_destination", who)
                    if r.record_type == "renege" and numeric_dest(r.destination):
                        tgt = self.renege_target(ind, r, k)
                        self.ck(tgt is None or r.destination == tgt, "renege_record_destination",
                                lambda: "%s names destination %s, the customer was sent to %s" % (who(), r.destination, tgt))
                self.checked[idn] = len(recs)
                # location vs last record
                if recs:
                    last = recs[-1]
                    term = self.terminal(ind, last, len(recs) - 1)
                    if at_exit:
                        self.ck(term, "exit_without_terminal_record",
                                lambda: "customer %s is at the exit, last record %s" % (idn, tuple(last)))
                    else:
                        self.ck(not term, "terminal_record_not_at_exit",
                                lambda: "customer %s is in node %s, last record %s is terminal" % (idn, n.id_number, tuple(last)))
                        dest = self.points_to(ind, last, len(recs) - 1)
                        self.ck(dest == n.id_number, "location",
                                lambda: "customer %s is in node %s, last record %s points to %s" % (idn, n.id_number, tuple(last), dest))
                else:
                    self.ck(not at_exit, "exit_without_record", lambda: "customer %s at the exit without any record" % idn)
                    if arr is not None:
                        self.ck(n.id_number == arr["node"], "location_first",
                                lambda: "customer %s never left node %s but is in node %s" % (idn, arr["node"], n.id_number))
                # one closing record per completed visit
                visits = tr.visits.get(idn, [])
                closing = [r for r in recs if r.record_type == "service" or r.record_type == "renege"
                           or (r.record_type == "interrupted service" and numeric_dest(r.destination))]
                if recs and recs[0].record_type in ("baulk", "rejection"):
                    self.ck(len(visits) == 0, "terminal_customer_visited")
                else:
                    expect = len(visits) - (0 if at_exit else 1)
                    self.ck(len(closing) == expect, "one_record_per_visit",
                            lambda: "customer %s: %d visits (%s), %d closing records" % (idn, len(visits), "at exit" if at_exit else "in node", len(closing)))
                    for v, r in zip(visits, closing):
                        self.ck(r.node == v["node"], "visit_node",
                                lambda: "customer %s visit at node %s closed by record at node %s" % (idn, v["node"], r.node))
                    nserv = sum(1 for r in recs if r.record_type == "service")
                    self.ck(nserv <= len(visits), "service_records_le_visits")
                self.seen("c03_customers")
                if len(recs) > 1:
                    self.seen("c03_chained")


# ==============================================================================================
class C04(Monitor):
    """server exclusivity, server sticks to its customer, intervals per server id, utilisation"""
    prop = "C04"

    def at_init(self):
        self.checked = {}
        self.by_server = {}  # (node, server id) -> list of (start, exit, ind)

    def pre_event(self, node, ctx):
        Q = self.Q
        snap = {}
        for n in Q.transitive_nodes:
            if finite(n):
                for i in served(n):
                    snap[i.id_number] = (n.id_number, len(Q.tr.visits.get(i.id_number, [])), i.server, len(i.data_records))
        ctx["c04"] = snap

    def pre_attach(self, node, server, ind):
        self.ck(not server.busy and server.cust is False, "attach_to_busy_server",
                lambda: "server %s attached to customer %s while serving %s" % (server, ind.id_number, server.cust))
        self.ck(server in node.servers, "attach_foreign_server")

    def post_event(self, node, nxt, ctx):
        Q = self.Q
        now = Q.current_time
        for n in Q.transitive_nodes:
            if not finite(n):
                continue
            H = here(n)
            for s in n.servers:
                self.ck((s.cust is False) == (not s.busy), "busy_flag", lambda: "%s busy=%s cust=%s" % (s, s.busy, s.cust))
                if s.cust is not False:
                    self.ck(s.cust.server is s and any(s.cust is i for i in H), "link",
                            lambda: "%s serves customer %s who is not at the node / has server %s" % (s, s.cust, s.cust.server))
            S = served(n)
            self.ck(all(any(i.server is s for s in n.servers) for i in S), "foreign_server",
                    lambda: "customers %s hold servers not at node %s" % ([i for i in S if i.server not in n.servers], n.id_number))
            self.ck(len({id(i.server) for i in S}) == len(S), "shared_server")
            self.ck(all(i.server.cust is i for i in S), "link_back")
            self.ck(len(S) <= len(n.servers), "more_in_service_than_servers")
            duty = onduty(n)
            cnow = n.schedule.c if n.schedule is not None else n.c
            self.ck(len(duty) <= cnow, "more_onduty_than_c",
                    lambda: "node %s has %d servers on duty, c=%s" % (n.id_number, len(duty), cnow))
            ins_on = [i for i in S if not i.server.offduty]
            self.ck(len(ins_on) <= cnow, "more_in_service_than_c")
            if S:
                self.seen("c04_in_service")
        # server sticks to its customer
        for idn, (nid, vis, srv, nrec) in ctx["c04"].items():
            n = Q.nodes[nid]
            cur = [i for i in here(n) if i.id_number == idn]
            if not cur or len(Q.tr.visits.get(idn, [])) != vis:
                continue  # left the node (or left and came back)
            i = cur[0]
            interrupted = any(r.record_type == "interrupted service" for r in i.data_records[nrec:])
            if interrupted:
                continue
            self.ck(i.server is srv, "server_left_customer",
                    lambda: "customer %s at node %s had %s before the event and has %s after (blocked=%s)" % (idn, nid, srv, i.server, i.is_blocked))
            self.seen("c04_kept_server")
        self.intervals(now)

    def at_end(self):
        self.intervals(None)

    def intervals(self, now):
        Q = self.Q
        for ind in all_inds(Q):
            recs = ind.data_records
            k0 = self.checked.get(ind.id_number, 0)
            for r in recs[k0:]:
                if r.record_type not in ("service", "interrupted service"):
                    continue
                sid = r.server_id
                if sid is False or isnan(sid) or not isnum(r.service_start_date) or not isnum(r.exit_date):
                    continue
                key = (r.node, sid)
                for (s0, x0, who) in self.by_server.get(key, []):
                    if who == r.id_number:
                        continue  # stretches of one customer (an interrupted blocked customer keeps its original start)
                    self.ck(AnyOf(LE(x0, r.service_start_date), LE(r.exit_date, s0)), "server_intervals_overlap",
                            lambda: "server %s of node %s: customer %s [%s, %s] overlaps customer %s [%s, %s]" % (sid, r.node, who, s0, x0, r.id_number, r.service_start_date, r.exit_date))
                    self.seen("c04_interval_pairs")
                self.by_server.setdefault(key, []).append((r.service_start_date, r.exit_date, r.id_number))
            self.checked[ind.id_number] = len(recs)
        # customers currently attached vs closed intervals of the same server
        for n in Q.transitive_nodes:
            if finite(n):
                for i in served(n):
                    for (s0, x0, who) in self.by_server.get((n.id_number, i.server.id_number), []):
                        if who == i.id_number:
                            continue
                        if isnum(i.service_start_date):
                            self.ck(LE(x0, i.service_start_date), "server_interval_overlaps_current",
                                    lambda: "server %s of node %s: closed interval of %s [%s,%s] overlaps current customer %s from %s" % (i.server.id_number, n.id_number, who, s0, x0, i.id_number, i.service_start_date))


class C04Util(Monitor):
    """utilisation = attachment time / server time (runs without pre-emption, symbolic horizon T)"""
    prop = "C04"

    def at_end(self):
        Q = self.Q
        T = Q.flags.get("T")
        if T is None:
            return
        tr = Q.tr
        for n in Q.transitive_nodes:
            if not finite(n):
                continue
            u = getattr(n, "server_utilisation", "unset")
            if n.c == 0:
                self.ck(u is None, "util_none_when_no_servers")
                continue
            # my own integral of attachment time per server, clipped at T
            num = Fraction(0)
            for a in tr.attach:
                if a["node"] != n.id_number:
                    continue
                ends = [d["t"] for d in tr.detach if d["node"] == n.id_number and d["server"] == a["server"] and d["ind"] == a["ind"] and d["seq"] > a["seq"]]
                end = ends[0] if ends else T
                num = num + (end - a["t"])
            den = Fraction(0)
            for (nid, sid), rec in tr.servers.items():
                if nid != n.id_number:
                    continue
                end = rec["killed"] if rec["killed"] is not None else T
                den = den + (end - rec["start"])
            self.seen("c04_util_checked")
            what = lambda: "node %s utilisation %s, attachment time %s / server time %s" % (n.id_number, u, num, den)
            self.ck(LT(0, den), "utilisation_server_time_zero", what)
            if isinstance(u, SymRatio):
                unum, uden = SymReal(u.num), SymReal(u.den)
                self.ck(RatioEQ(unum, uden, num, den), "utilisation_value", what)
                self.ck(AllOf(LE(0, unum), LE(unum, uden), LT(0, uden)), "utilisation_range", what)
            elif isnum(u):
                self.ck(RatioEQ(u, 1.0, num, den), "utilisation_value", what)
                self.ck(AllOf(LE(0, u), LE(u, 1)), "utilisation_range", what)
            else:
                self.ck(False, "utilisation_value", what)


# ==============================================================================================
class C05(Monitor):
    """work conservation"""
    prop = "C05"

    def eligible(self, n):
        return [i for i in here(n) if (not i.server) or i.interrupted]

    def idle(self, n):
        return [s for s in onduty(n) if not s.busy]

    def pre_accept(self, node, ind, ctx):
        if finite(node) and not self.Q.flags.get("no_zero_wait"):
            ctx["c05_free"] = bool(self.idle(node)) and not self.eligible(node)

    def post_accept(self, node, ind, ctx):
        if ctx.get("c05_free"):
            now = self.Q.current_time
            self.ck(bool(ind.server) and ind.server is not True, "free_server_not_taken",
                    lambda: "customer %s arrived at node %s with a free server and nobody waiting but did not start" % (ind.id_number, node.id_number))
            self.ck(EQ(ind.service_start_date, now), "zero_wait",
                    lambda: "customer %s arrived to a free server at %s, service starts %s" % (ind.id_number, now, ind.service_start_date))
            self.seen("c05_zero_wait")

    def pre_attach(self, node, server, ind):
        Q = self.Q
        now = Q.current_time
        if not finite(node):
            return
        if isnum(ind.arrival_date):
            freed = bool(Q.tr.freed.get((Q.tr.event_no, node.id_number)))
            if not freed:
                self.ck(EQ(ind.arrival_date, now), "start_without_server_freed",
                        lambda: "customer %s (arrived %s) starts service at node %s at %s although no server became free in this event" % (ind.id_number, ind.arrival_date, node.id_number, now))
            else:
                self.seen("c05_start_on_freed_server")

    def post_event(self, node, nxt, ctx):
        Q = self.Q
        for n in Q.transitive_nodes:
            if not finite(n):
                continue
            idle, wait = self.idle(n), self.eligible(n)
            if wait:
                self.seen("c05_waiting_seen")
            self.ck(not (idle and wait), "idle_server_while_waiting",
                    lambda: "after event %d (%s) node %s: on-duty servers %s idle while customers %s wait" % (Q.tr.event_no, E.EX.path_events[-1], n.id_number, idle, [(i.id_number, "interrupted" if i.interrupted else "waiting") for i in wait]))


# ==============================================================================================
class C06(Monitor):
    """finite capacity; rejection iff full"""
    prop = "C06"

    def cap(self, n):
        return n.node_capacity

    def post_event(self, node, nxt, ctx):
        Q = self.Q
        tot = 0
        for n in Q.transitive_nodes:
            k = len(here(n))
            tot += k
            if (n.schedule is None or is_ps(n)) and not Q.flags.get("overcap_ok"):
                cap = self.expected_capacity(n)
                self.ck(k <= cap, "node_over_capacity",
                        lambda: "node %s holds %d customers, servers+queue capacity = %s" % (n.id_number, k, cap))
        self.ck(tot <= Q.network.system_capacity, "system_over_capacity",
                lambda: "system holds %d customers, capacity %s" % (tot, Q.network.system_capacity))

    def expected_capacity(self, n):
        sc = self.Q.network.service_centres[n.id_number - 1]
        return sc.number_of_servers + sc.queueing_capacity

    def pre_arrival(self, arr, ctx):
        Q = self.Q
        nd = Q.transitive_nodes[arr.next_node - 1]
        ctx["c06_pop"] = len(here(nd))
        ctx["c06_sys"] = sum(len(here(n)) for n in Q.transitive_nodes)

    def post_arrival(self, arr, ctx):
        Q = self.Q
        nd = Q.transitive_nodes[ctx["node"] - 1]
        if nd.schedule is not None and not is_ps(nd):
            return
        cap = self.expected_capacity(nd)
        pop, syspop = ctx["c06_pop"], ctx["c06_sys"]
        exit_inds = {i.id_number: i for i in Q.nodes[-1].all_individuals}
        at_node = {i.id_number for i in here(nd)}
        for idn in range(ctx["first"], ctx["last"] + 1):
            full = pop >= cap or syspop >= Q.network.system_capacity
            x = exit_inds.get(idn)
            rej = x is not None and len(x.data_records) >= 1 and x.data_records[-1].record_type == "rejection"
            self.ck(rej == full, "rejected_iff_full",
                    lambda: "customer %s: rejected=%s but node population %s (capacity %s), system %s (capacity %s)" % (idn, rej, pop, cap, syspop, Q.network.system_capacity))
            if rej:
                r = x.data_records[-1]
                self.ck(r.queue_size_at_arrival == pop, "rejection_record_population",
                        lambda: "rejection record of %s shows population %s, %s were there" % (idn, r.queue_size_at_arrival, pop))
                self.ck(r.node == ctx["node"], "rejection_record_node")
                self.seen("c06_rejections")
            else:
                self.seen("c06_admitted")
                if x is None:
                    # admitted and stayed (it may already have moved on to another node: count it there)
                    pop += 1 if idn in at_node else 0
                    syspop += 1
                    if idn not in at_node:
                        # moved on within the same event (zero service time is impossible here: services end at events)
                        pop += 0


# ==============================================================================================
class C07(Monitor):
    """Type I blocking"""
    prop = "C07"

    def pop(self, n):
        return len(here(n)) if n.id_number != -1 else 0

    def has_space(self, d):
        if d.id_number == -1:
            return True
        return self.pop(d) < d.node_capacity

    def pre_block(self, node, ind, dest):
        self.ck(not self.has_space(dest), "blocked_though_space",
                lambda: "customer %s blocked at node %s towards node %s holding %d of %s" % (ind.id_number, node.id_number, dest.id_number, self.pop(dest), dest.node_capacity))
        self.ck(not ind.is_blocked, "blocked_twice",
                lambda: "customer %s, already blocked, completed service again" % ind.id_number)
        if finite(node):
            self.ck(bool(ind.server) and ind.server.cust is ind, "blocked_without_server")
        self.seen("c07_blockages")

    def pre_release(self, node, ind, dest, reroute, ctx):
        Q = self.Q
        if reroute:
            return
        fifo = Q.tr.block_fifo.setdefault(dest.id_number, [])
        if ind.is_blocked:
            self.ck(self.has_space(dest), "unblocked_into_full_node",
                    lambda: "customer %s unblocked into node %s holding %d of %s" % (ind.id_number, dest.id_number, self.pop(dest), dest.node_capacity))
            head = fifo[0] if fifo else None
            self.ck(head == (node.id_number, ind.id_number), "unblock_not_fifo",
                    lambda: "customer %s of node %s enters node %s, but blocked longest is %s (queue %s)" % (ind.id_number, node.id_number, dest.id_number, head, fifo))
            if fifo and (node.id_number, ind.id_number) in fifo:
                fifo.remove((node.id_number, ind.id_number))
            ctx["c07_was_blocked"] = True
            self.seen("c07_unblockings")
        else:
            self.ck(self.has_space(dest), "moved_into_full_node",
                    lambda: "customer %s moved from node %s into node %s holding %d of %s" % (ind.id_number, node.id_number, dest.id_number, self.pop(dest), dest.node_capacity))
            self.ck((node.id_number, ind.id_number) not in fifo, "moved_while_queued_as_blocked")
            ctx["c07_was_blocked"] = False
        ctx["c07_nrec"] = len(ind.data_records)

    def post_release(self, node, ind, dest, reroute, ctx):
        Q = self.Q
        if reroute or "c07_was_blocked" not in ctx:
            return
        now = Q.current_time
        recs = ind.data_records[ctx["c07_nrec"]:]
        recs = [r for r in recs if r.record_type == "service" and r.node == node.id_number]
        if not recs:
            return
        r = recs[0]
        if ctx["c07_was_blocked"]:
            t0 = Q.tr.block_time.get(ind.id_number)
            self.ck(EQ(r.exit_date, now), "blocked_exit_date")
            if t0 is not None and not Q.flags.get("preemptive_schedule"):
                self.ck(EQ(r.service_end_date, t0), "time_blocked_start",
                        lambda: "customer %s became blocked at %s, record says service ended %s" % (ind.id_number, t0, r.service_end_date))
                self.ck(EQ(r.time_blocked, now - t0), "time_blocked_value",
                        lambda: "customer %s blocked from %s to %s, record time_blocked %s" % (ind.id_number, t0, now, r.time_blocked))
        else:
            self.ck(EQ(r.time_blocked, 0), "unblocked_record_has_time_blocked",
                    lambda: "customer %s was never blocked at node %s, record time_blocked %s" % (ind.id_number, node.id_number, r.time_blocked))

    def post_event(self, node, nxt, ctx):
        Q = self.Q
        for n in Q.transitive_nodes:
            for i in here(n):
                if i.is_blocked:
                    self.seen("c07_blocked_seen")
                    self.ck(numeric_dest(i.destination) and i.destination >= 1, "blocked_destination")
                    d = Q.nodes[i.destination]
                    self.ck(not self.has_space(d), "blocked_while_space",
                            lambda: "after event %d (%s): customer %s blocked at node %s towards node %s which holds %d of %s" % (Q.tr.event_no, E.EX.path_events[-1], i.id_number, n.id_number, d.id_number, self.pop(d), d.node_capacity))
                    if finite(n) and not i.interrupted:
                        self.ck(bool(i.server) and i.server.cust is i, "blocked_lost_server",
                                lambda: "blocked customer %s at node %s holds no server" % (i.id_number, n.id_number))
        # lemma (internal representation): blocked_queue equals my FIFO
        for n in Q.transitive_nodes:
            mine = Q.tr.block_fifo.get(n.id_number, [])
            if list(n.blocked_queue) != list(mine) or n.len_blocked_queue != len(mine):
                E.EX.tag("lemma:blocked_queue")


# ==============================================================================================
class C08(Monitor):
    """service order"""
    prop = "C08"

    def pool(self, node):
        return [i for i in here(node) if not i.server and not i.interrupted]

    def prescribed(self, node, pool, ind, where):
        if not pool:
            return
        best = min(i.priority_class for i in pool)
        self.ck(ind.priority_class == best, "not_highest_priority",
                lambda: "%s node %s: customer %s (priority %s) chosen while %s wait" % (where, node.id_number, ind.id_number, ind.priority_class, [(i.id_number, i.priority_class) for i in pool]))
        same = sorted([i for i in pool if i.priority_class == best], key=lambda i: i._acc)
        d = node.service_discipline
        if self.Q.flags.get("priority_changes_while_waiting"):
            return
        if d is ciw.disciplines.FIFO:
            self.ck(ind is same[0], "fifo_order",
                    lambda: "%s node %s FIFO: customer %s chosen, earliest waiting is %s" % (where, node.id_number, ind.id_number, same[0].id_number))
        elif d is ciw.disciplines.LIFO:
            self.ck(ind is same[-1], "lifo_order",
                    lambda: "%s node %s LIFO: customer %s chosen, latest waiting is %s" % (where, node.id_number, ind.id_number, same[-1].id_number))
        elif d is ciw.disciplines.SIRO:
            self.ck(any(ind is i for i in same), "siro_member")
        if len(same) > 1:
            self.seen("c08_real_choice")

    def post_choose(self, node, r):
        pool = self.pool(node)
        if r is None:
            self.ck(not pool, "nobody_chosen_while_waiting",
                    lambda: "node %s: nobody chosen while %s wait" % (node.id_number, [i.id_number for i in pool]))
            return
        self.ck(any(r is i for i in pool), "chosen_not_waiting",
                lambda: "node %s chose customer %s who is not waiting" % (node.id_number, r.id_number))
        self.prescribed(node, pool, r, "choice at")
        self.seen("c08_choices")

    def pre_attach(self, node, server, ind):
        if ind.interrupted or any(ind is i for i in node.interrupted_individuals):
            return
        pool = self.pool(node)
        self.ck(any(ind is i for i in pool), "started_not_waiting",
                lambda: "node %s: customer %s starts service but was not waiting" % (node.id_number, ind.id_number))
        self.prescribed(node, pool, ind, "service start at")
        self.seen("c08_starts")

    def pre_slot(self, node, ctx):
        ctx["c08_pool"] = [i for i in here(node) if i.service_start_date is False and not i.interrupted
                           and not any(i is x for x in node.interrupted_individuals)]

    def post_slot(self, node, ctx):
        pool = ctx.get("c08_pool", [])
        started = [i for i in pool if i.service_start_date is not False and any(i is x for x in here(node))]
        still = [i for i in pool if i.service_start_date is False and any(i is x for x in here(node))]
        d = node.service_discipline
        for s_ in started:
            for w in still:
                self.ck(w.priority_class >= s_.priority_class, "slot_not_highest_priority",
                        lambda: "slot at node %s started customer %s (priority %s) while customer %s (priority %s) waits" % (node.id_number, s_.id_number, s_.priority_class, w.id_number, w.priority_class))
                if w.priority_class == s_.priority_class and not self.Q.flags.get("priority_changes_while_waiting"):
                    if d is ciw.disciplines.FIFO:
                        self.ck(s_._acc < w._acc, "slot_fifo_order", lambda: "slot at node %s (FIFO) started customer %s before earlier customer %s" % (node.id_number, s_.id_number, w.id_number))
                    elif d is ciw.disciplines.LIFO:
                        self.ck(s_._acc > w._acc, "slot_lifo_order", lambda: "slot at node %s (LIFO) started customer %s before later customer %s" % (node.id_number, s_.id_number, w.id_number))
            self.seen("c08_slot_starts")

    def at_end(self):
        """records: under FIFO nobody overtakes an equal-or-higher priority earlier arrival"""
        Q = self.Q
        if Q.flags.get("no_overtake_check") or Q.flags.get("class_change_waiting") or Q.flags.get("priority_changes_while_waiting") is not None:
            return
        pm = Q.network.priority_class_mapping
        for n in Q.transitive_nodes:
            if n.service_discipline is not ciw.disciplines.FIFO or not finite(n):
                continue
            recs = []
            for i in all_inds(Q):
                first = None
                for r in i.data_records:
                    if r.node != n.id_number:
                        first = None
                        continue
                    if r.record_type == "interrupted service" and not numeric_dest(r.destination):
                        if first is None:
                            first = r.service_start_date
                    elif r.record_type == "service":
                        # (record, first start of this visit: a pre-empted customer was not waiting before that)
                        recs.append((r, first if first is not None else r.service_start_date))
                        first = None
                    else:
                        first = None
            still = [i for i in here(n) if not i.server and not i.interrupted
                     and not (i.data_records and i.data_records[-1].record_type == "interrupted service" and i.data_records[-1].node == n.id_number)]
            for (a, a_first) in recs:
                for (b, b_first) in recs:
                    if a is b or pm[b.customer_class] > pm[a.customer_class]:
                        continue
                    # b has equal or higher priority: if b arrived strictly earlier, a must not start before b first did
                    self.ck(AnyOf(LE(a.arrival_date, b.arrival_date), LE(b_first, a_first)), "fifo_overtaking",
                            lambda: "node %s: customer %s (arr %s, start %s) overtook customer %s (arr %s, start %s)" % (n.id_number, a.id_number, a.arrival_date, a_first, b.id_number, b.arrival_date, b_first))
                    self.seen("c08_pairs")
                for b in still:
                    if b.priority_class > pm[a.customer_class] or not isnum(b.arrival_date):
                        continue
                    self.ck(AnyOf(LE(a.arrival_date, b.arrival_date), LT(a_first, b.arrival_date)), "fifo_overtaking_waiting",
                            lambda: "node %s: customer %s (arr %s, start %s) was served before customer %s (arr %s) who still waits" % (n.id_number, a.id_number, a.arrival_date, a_first, b.id_number, b.arrival_date))


# ==============================================================================================
class C09(Monitor):
    """routing and class-change fidelity.  The specification is the declarative description in
    flags['routing'] written next to the configuration (not read back from Ciw's router objects)."""
    prop = "C09"

    def at_init(self):
        self.cycle_count = {}
        self.proc_pos = {}
        self.flex_state = {}

    def true_queue(self, d):
        n = self.Q.nodes[d]
        return len(here(n)) - len(served(n))

    def true_pop(self, d):
        return len(here(self.Q.nodes[d]))

    def pre_route(self, node, ind, kind, ctx):
        Q = self.Q
        ctx["c09_q"] = {n.id_number: self.true_queue(n.id_number) for n in Q.transitive_nodes}
        ctx["c09_p"] = {n.id_number: self.true_pop(n.id_number) for n in Q.transitive_nodes}

    def shortest(self, dests, measure, tie, answer, what, node):
        self.ck(answer in dests, what + "_not_a_destination",
                lambda: "node %s sent a customer to %s, destinations %s" % (node.id_number, answer, dests))
        best = min(measure[d] for d in dests)
        self.ck(measure[answer] == best, what + "_not_minimal",
                lambda: "node %s sent a customer to node %s (%s: %s), true values %s, counters %s" % (
                    node.id_number, answer, what, measure[answer], {d: measure[d] for d in dests},
                    {d: (self.Q.nodes[d].number_of_individuals, self.Q.nodes[d].number_in_service) for d in dests}))
        if tie == "order":
            first = [d for d in dests if measure[d] == best][0]
            self.ck(answer == first, what + "_order_tiebreak",
                    lambda: "node %s: tie between %s broken towards %s" % (node.id_number, [d for d in dests if measure[d] == best], answer))
        self.seen("c09_" + what)
        if len(set(measure[d] for d in dests)) > 1:
            self.seen("c09_" + what + "_unequal")

    def post_route(self, node, ind, r, kind, ctx):
        Q = self.Q
        spec = Q.flags.get("routing", {}).get(ind.customer_class)
        if spec is None:
            return
        ans = r.id_number
        nid = node.id_number
        if spec[0] == "nodes":
            ns = spec[1][nid - 1]
            t = ns[0]
            if t == "prob":
                dests, probs = list(ns[1]) + [-1], list(ns[2]) + [1 - sum(Fraction(p) for p in ns[2])]
                p = sum(Fraction(pp) for d, pp in zip(dests, probs) if d == ans)
                self.ck(ans in dests and p > 0, "zero_probability_transition",
                        lambda: "class %s: node %s -> %s has probability %s (row %s)" % (ind.customer_class, nid, ans, p, list(zip(dests, probs))))
                self.seen("c09_prob")
                if any(Fraction(pp) == 0 for pp in probs):
                    self.seen("c09_prob_with_zero_entry")
            elif t == "direct":
                self.ck(ans == ns[1], "direct", lambda: "Direct(%s) at node %s answered %s" % (ns[1], nid, ans))
                self.seen("c09_direct")
            elif t == "leave":
                self.ck(ans == -1, "leave", lambda: "Leave at node %s answered %s" % (nid, ans))
                self.seen("c09_leave")
            elif t == "cycle":
                key = (ns[3] if len(ns) > 3 else ind.customer_class, nid)
                k = self.cycle_count.get(key, 0)
                self.cycle_count[key] = k + 1
                self.ck(ans == ns[1][k % len(ns[1])], "cycle",
                        lambda: "Cycle(%s) at node %s: call %d answered %s" % (ns[1], nid, k, ans))
                self.seen("c09_cycle")
            elif t == "jsq":
                self.shortest(ns[1], ctx["c09_q"], ns[2], ans, "jsq", node)
            elif t == "lb":
                self.shortest(ns[1], ctx["c09_p"], ns[2], ans, "lb", node)
        elif spec[0] == "process":
            route = Q.flags["route_log"].get(ind.id_number)
            k = self.proc_pos.get(ind.id_number, 0)
            self.proc_pos[ind.id_number] = k + 1
            exp = route[k] if k < len(route) else -1
            self.ck(ans == exp, "process_route",
                    lambda: "customer %s with route %s: step %d went to %s" % (ind.id_number, route, k, ans))
            self.seen("c09_process")
        elif spec[0] == "flex":
            rule, choice = spec[1], spec[2]
            st = self.flex_state.get(ind.id_number)
            if st is None:
                st = self.flex_state[ind.id_number] = [list(s) for s in Q.flags["route_log"].get(ind.id_number)]
            if not st:
                self.ck(ans == -1, "flex_leave", lambda: "customer %s finished its route but went to %s" % (ind.id_number, ans))
            else:
                sub = st[0]
                self.ck(ans in sub, "flex_subset", lambda: "customer %s: next subset %s, went to %s" % (ind.id_number, sub, ans))
                if choice == "jsq":
                    self.shortest(sub, ctx["c09_q"], "random", ans, "jsq", node)
                if choice == "lb":
                    self.shortest(sub, ctx["c09_p"], "random", ans, "lb", node)
                if rule == "any":
                    st.pop(0)
                else:
                    if ans in sub:
                        sub.remove(ans)
                    if not sub:
                        st.pop(0)
            self.seen("c09_flex")

    def post_class_change(self, node, ind, before):
        Q = self.Q
        M = Q.flags.get("class_change")
        if M is None or not node.class_change:
            return
        row = M[node.id_number - 1][before]
        p = Fraction(row.get(ind.customer_class, 0))
        self.ck(p > 0, "zero_probability_class_change",
                lambda: "node %s: class %s -> %s has probability 0 (row %s)" % (node.id_number, before, ind.customer_class, row))
        self.seen("c09_class_changes")

    def post_event(self, node, nxt, ctx):
        Q = self.Q
        pm = Q.network.priority_class_mapping
        for n in Q.transitive_nodes:
            for i in here(n):
                self.ck(i.priority_class == pm[i.customer_class], "priority_matches_class",
                        lambda: "customer %s has class %s (priority %s) but priority_class %s" % (i.id_number, i.customer_class, pm[i.customer_class], i.priority_class))
            # lemma for deepening: cached in-service counter vs truth
            if finite(n) and n.number_in_service != len(served(n)):
                E.EX.tag("lemma:number_in_service")


# ==============================================================================================
class C10(Monitor):
    """sampled inputs honoured (rows without pre-emption / class change)"""
    prop = "C10"

    def at_init(self):
        self.arr_count = {}
        self.checked = {}

    def post_arrival(self, arr, ctx):
        Q = self.Q
        nd, cl, now = ctx["node"], ctx["cls"], ctx["t"]
        A = Q.inter_arrival_times[nd][cl]
        B = Q.batch_sizes[nd][cl]
        j = self.arr_count.get((nd, cl), 0)
        self.arr_count[(nd, cl)] = j + 1
        if hasattr(A, "log"):
            draws = [v for (_, _, v) in A.log]
            self.ck(len(draws) == j + 2, "interarrival_draws",
                    lambda: "stream %s: %d inter-arrival draws after %d arrival events" % ((nd, cl), len(draws), j + 1))
            expect = 0
            for v in draws[:j + 1]:
                expect = expect + v
            self.ck(EQ(now, expect), "arrival_at_partial_sum",
                    lambda: "arrival %d of stream %s at %s, partial sum of samples %s" % (j, (nd, cl), now, expect))
        created = ctx["last"] - ctx["first"] + 1
        if hasattr(B, "log"):
            self.ck(len(B.log) == j + 1, "batch_draws", lambda: "stream %s: %d batch draws after %d arrival events" % ((nd, cl), len(B.log), j + 1))
            if len(B.log) == j + 1:
                self.ck(created == B.log[j], "batch_size",
                        lambda: "arrival %d of stream %s created %d customers, sampled batch size %s" % (j, (nd, cl), created, B.log[j]))
            if created != 1:
                self.seen("c10_nonunit_batches")
        for i in all_inds(Q):
            if ctx["first"] <= i.id_number <= ctx["last"]:
                d = i.data_records[0].arrival_date if i.data_records else i.arrival_date
                self.ck(EQ(d, now), "batch_member_arrival_date",
                        lambda: "customer %s created at %s has arrival date %s" % (i.id_number, now, d))
                self.ck(i.original_class == cl or bool(i.data_records), "arrival_class")
        self.seen("c10_arrival_events")

    def post_event(self, node, nxt, ctx):
        self.services()

    def at_end(self):
        self.services()
        # completeness: when the run returns at the horizon T, every stream's next (not yet executed) arrival is due at
        # or after T -- a stream that silently stops arriving breaks "arrivals occur at the partial sums"
        Q = self.Q
        T = Q.flags.get("T")
        if T is None:
            return
        for nd, per_cls in Q.inter_arrival_times.items():
            for cl, A in per_cls.items():
                if A is None or not hasattr(A, "log"):
                    continue
                j = self.arr_count.get((nd, cl), 0)
                draws = [v for (_, _, v) in A.log]
                if len(draws) < j + 1:
                    continue
                nxt = 0
                for v in draws[:j + 1]:
                    nxt = nxt + v
                if isinstance(nxt, float) and not is_sym(nxt) and isinf(nxt):
                    continue
                self.ck(LE(T, nxt), "arrival_missing_before_horizon",
                        lambda: "stream %s: %d arrivals happened, the next is due at %s, but the run returned at horizon %s" % ((nd, cl), j, nxt, T))
                self.seen("c10_streams_complete")

    def services(self):
        Q = self.Q
        for i in all_inds(Q):
            recs = i.data_records
            k0 = self.checked.get(i.id_number, 0)
            if len(recs) == k0:
                continue
            for k in range(k0, len(recs)):
                r = recs[k]
                if r.record_type != "service":
                    continue
                nd = Q.nodes[r.node]
                if is_ps(nd):
                    continue
                S = Q.service_times[r.node][r.customer_class]
                if not hasattr(S, "log"):
                    continue
                draws = [(t, v) for (idn, t, v) in S.log if idn == i.id_number]
                j = sum(1 for x in recs[:k] if x.record_type == "service" and x.node == r.node and x.customer_class == r.customer_class)
                self.ck(j < len(draws), "service_without_draw", lambda: "customer %s served at node %s without a service sample" % (i.id_number, r.node))
                if j < len(draws):
                    t, v = draws[j]
                    self.ck(EQ(r.service_time, v), "service_time_is_sample",
                            lambda: "customer %s at node %s: recorded service time %s, sampled %s" % (i.id_number, r.node, r.service_time, v))
                    self.ck(EQ(r.service_end_date - r.service_start_date, v), "service_duration_is_sample",
                            lambda: "customer %s at node %s: served from %s to %s, sampled %s" % (i.id_number, r.node, r.service_start_date, r.service_end_date, v))
                    self.ck(EQ(t, r.service_start_date), "sampled_at_service_start",
                            lambda: "customer %s at node %s: sample drawn at %s, service started %s" % (i.id_number, r.node, t, r.service_start_date))
                self.seen("c10_services")
            self.checked[i.id_number] = len(recs)
        # every draw belongs to exactly one service (no draw skipped, none anonymous)
        for nid, per_cls in Q.service_times.items():
            nd = Q.nodes[nid]
            if is_ps(nd):
                continue
            for cls, S in per_cls.items():
                if not hasattr(S, "log"):
                    continue
                per = {}
                for (idn, t, v) in S.log:
                    self.ck(idn is not None, "anonymous_service_draw")
                    per[idn] = per.get(idn, 0) + 1
                for idn, cnt in per.items():
                    ind = [x for x in all_inds(Q) if x.id_number == idn]
                    if not ind:
                        continue
                    ind = ind[0]
                    done = sum(1 for x in ind.data_records if x.record_type == "service" and x.node == nid and x.customer_class == cls)
                    cur = 1 if (ind.node == nid and ind in here(nd) and in_service(nd, ind) and ind.customer_class == cls) else 0
                    if ind in here(nd) and ind.is_blocked and ind.previous_class == cls:
                        cur = 1
                    self.ck(cnt == done + cur, "service_draws_vs_services",
                            lambda: "customer %s at node %s class %s: %d samples drawn for %d services" % (idn, nid, cls, cnt, done + cur))


# ==============================================================================================
class C11(Monitor):
    """pre-emptive priorities"""
    prop = "C11"

    def at_init(self):
        self.checked = {}

    def post_event(self, node, nxt, ctx):
        Q = self.Q
        for n in Q.transitive_nodes:
            if n.priority_preempt is not False and finite(n):
                # customers finishing as overtime on off-duty servers cannot be pre-empted in favour of anybody
                ins = [i for i in served(n) if not i.server.offduty]
                wt = [i for i in here(n) if not i.server and not i.interrupted]
                if ins and wt:
                    self.ck(min(i.priority_class for i in wt) >= max(i.priority_class for i in ins), "priority_inversion",
                            lambda: "after event %d (%s) node %s: waiting %s while in service %s" % (Q.tr.event_no, E.EX.path_events[-1], n.id_number, [(i.id_number, i.priority_class) for i in wt], [(i.id_number, i.priority_class) for i in ins]))
                    self.seen("c11_wait_and_serve")
        self.bookkeeping()

    def at_end(self):
        self.bookkeeping()

    def pre_preempt(self, node, victim, newcomer, ctx):
        ins = [s.cust for s in node.servers if s.cust is not False]
        self.ck(any(victim is i for i in ins), "victim_not_in_service")
        worst = max(i.priority_class for i in ins)
        self.ck(victim.priority_class == worst, "victim_not_lowest_priority",
                lambda: "node %s: victim %s has priority %s, in service %s" % (node.id_number, victim.id_number, victim.priority_class, [(i.id_number, i.priority_class) for i in ins]))
        for o in ins:
            if o.priority_class == worst and o is not victim:
                self.ck(LE(o.service_start_date, victim.service_start_date), "victim_not_most_recently_started",
                        lambda: "node %s: victim %s started %s, customer %s of the same priority started %s" % (node.id_number, victim.id_number, victim.service_start_date, o.id_number, o.service_start_date))
                self.seen("c11_victim_choice")
        self.ck(newcomer.priority_class < victim.priority_class, "preempted_by_equal_or_lower",
                lambda: "customer %s (priority %s) pre-empted customer %s (priority %s)" % (newcomer.id_number, newcomer.priority_class, victim.id_number, victim.priority_class))
        ctx["c11_nrec"] = len(victim.data_records)
        self.seen("c11_preemptions")

    def post_preempt(self, node, victim, newcomer, ctx):
        now = self.Q.current_time
        new = victim.data_records[ctx["c11_nrec"]:]
        ints = [r for r in new if r.record_type == "interrupted service" and r.node == node.id_number]
        self.ck(len(ints) == 1, "interruption_not_recorded",
                lambda: "customer %s pre-empted at node %s: new records %s" % (victim.id_number, node.id_number, [tuple(r) for r in new]))
        if ints:
            self.ck(EQ(ints[0].exit_date, now), "interruption_record_date")
            if node.priority_preempt == "reroute":
                self.ck(numeric_dest(ints[0].destination), "reroute_record_without_destination")
        self.ck(newcomer.server is not False and bool(newcomer.server) and newcomer.server.cust is newcomer, "preemptor_not_served")
        if node.priority_preempt != "reroute":
            self.ck(any(victim is i for i in here(node)) and not victim.server, "victim_state")

    def bookkeeping(self):
        Q = self.Q
        for i in all_inds(Q):
            recs = i.data_records
            if self.checked.get(i.id_number) == len(recs):
                continue
            self.checked[i.id_number] = len(recs)
            # group the records by visit (a visit is closed by a service / renege / reroute record)
            visits = []
            cur = []
            for r in recs:
                if r.record_type in ("baulk", "rejection"):
                    continue
                cur.append(r)
                if r.record_type in ("service", "renege") or (r.record_type == "interrupted service" and numeric_dest(r.destination)):
                    visits.append(cur)
                    cur = []
            if cur:
                visits.append(cur)
            consumed = {}
            for v in visits:
                nid = v[0].node
                n = Q.nodes[nid]
                opt = n.priority_preempt
                cls = v[-1].customer_class
                if opt is False or not finite(n) or Q.flags.get("class_change") or Q.flags.get("class_change_waiting") or n.schedule is not None:
                    continue  # with class changes the sample stream of a visit is not determined by the record's class
                S = Q.service_times[nid][cls]
                if not hasattr(S, "log"):
                    continue
                draws = [x for (idn, t, x) in S.log if idn == i.id_number]
                ints = [r for r in v if r.record_type == "interrupted service"]
                fin = v[-1] if v[-1].record_type == "service" else None
                nstarts = len(ints) + (1 if fin is not None else 0)
                need = nstarts if opt == "resample" else min(1, nstarts)
                start = consumed.get((nid, cls), 0)
                consumed[(nid, cls)] = start + need
                mine = draws[start:start + need]
                if len(mine) < need:
                    self.ck(False, "missing_service_sample", lambda: "customer %s node %s: %d samples, %d needed" % (i.id_number, nid, len(draws), start + need))
                    continue
                if not ints:
                    continue
                self.seen("c11_interrupted_visits")
                if opt == "resume" and fin is not None:
                    tot = fin.service_time
                    for r in ints:
                        tot = tot + (r.exit_date - r.service_start_date)
                    self.ck(EQ(tot, mine[0]), "resume_total_service",
                            lambda: "customer %s node %s: served %s in total, requirement %s" % (i.id_number, nid, tot, mine[0]))
                    self.seen("c11_resume_completed")
                if opt == "restart":
                    for r in ints:
                        self.ck(EQ(r.service_time, mine[0]), "restart_interrupted_service_time")
                    if fin is not None:
                        self.ck(EQ(fin.service_time, mine[0]), "restart_service_time",
                                lambda: "customer %s node %s: restarted service lasts %s, original sample %s" % (i.id_number, nid, fin.service_time, mine[0]))
                        self.seen("c11_restart_completed")
                if opt == "resample":
                    for k, r in enumerate(ints):
                        self.ck(EQ(r.service_time, mine[k]), "resample_interrupted_service_time")
                    if fin is not None:
                        self.ck(EQ(fin.service_time, mine[len(ints)]), "resample_service_time",
                                lambda: "customer %s node %s: service after %d interruptions lasts %s, fresh sample %s" % (i.id_number, nid, len(ints), fin.service_time, mine[len(ints)]))
                        self.seen("c11_resample_completed")


# ==============================================================================================
class C12(Monitor):
    """server schedules and slotted services follow the declared cyclic timetable.
    flags['timetable'] = {node id: dict(kind='schedule', bounds, values, offset, preemption)}
                      or {node id: dict(kind='slotted', slots, sizes, offset, capacitated, preemption)}"""
    prop = "C12"
    CYCLES = 4

    def at_init(self):
        self.slot_k = {}
        self.shift_k = {}

    def tt(self, node):
        return self.Q.flags.get("timetable", {}).get(node.id_number)

    def segments(self, tt):
        """[(lo, hi, servers)] covering [0, offset + CYCLES cycles]"""
        off, b, v = tt["offset"], tt["bounds"], tt["values"]
        segs = [(0, off, 0)]
        lo = off
        for c in range(self.CYCLES):
            for k in range(len(b)):
                hi = off + b[k] + c * b[-1]
                segs.append((lo, hi, v[k]))
                lo = hi
        return segs

    def post_event(self, node, nxt, ctx):
        Q = self.Q
        now = Q.current_time
        for n in Q.transitive_nodes:
            tt = self.tt(n)
            if tt is None:
                continue
            if tt["kind"] == "schedule":
                duty = len(onduty(n))
                segs = self.segments(tt)
                conds = [AllOf(LE(lo, now), LE(now, hi)) for (lo, hi, v) in segs if v == duty]
                self.ck(AnyOf(*conds) if conds else False, "onduty_vs_timetable",
                        lambda: "after event %d (%s) at %s: node %s has %d servers on duty, timetable %s offset %s" % (Q.tr.event_no, E.EX.path_events[-1], now, n.id_number, duty, list(zip(tt["bounds"], tt["values"])), tt["offset"]))
                self.seen("c12_onduty_checks")
                if tt["preemption"] is False:
                    # overtime servers are only those still finishing the service they had at the shift end
                    for s in n.servers:
                        if s.offduty:
                            self.ck(s.cust is not False, "idle_offduty_server_kept")
                            self.seen("c12_overtime_seen")
                else:
                    self.ck(not any(s.offduty for s in n.servers), "offduty_server_under_preemption")
            else:
                # slotted: every service in progress started at a slot instant
                for i in here(n):
                    st = i.service_start_date
                    if st is not False and isnum(st):
                        self.ck(AnyOf(*[EQ(st, d) for d in self.slot_dates(tt)]), "service_start_not_at_slot",
                                lambda: "customer %s at slotted node %s started at %s" % (i.id_number, n.id_number, st))

    def slot_dates(self, tt):
        out = []
        for c in range(self.CYCLES):
            for s in tt["slots"]:
                out.append(tt["offset"] + s + c * tt["slots"][-1])
        return out

    # -- schedules ------------------------------------------------------------------------
    def pre_shift(self, node, ctx):
        Q = self.Q
        tt = self.tt(node)
        if tt is None:
            return
        now = Q.current_time
        k = self.shift_k.get(node.id_number, 0)
        self.shift_k[node.id_number] = k + 1
        b = tt["bounds"]
        expect = tt["offset"] if k == 0 else tt["offset"] + b[(k - 1) % len(b)] + ((k - 1) // len(b)) * b[-1]
        self.ck(EQ(now, expect), "shift_change_date",
                lambda: "shift change %d of node %s at %s, timetable says %s" % (k, node.id_number, now, expect))
        ctx["c12_inservice"] = [(i, len(i.data_records), i.service_end_date) for i in served(node)]
        ctx["c12_k"] = k

    def post_shift(self, node, ctx):
        Q = self.Q
        tt = self.tt(node)
        if tt is None:
            return
        now = Q.current_time
        k = ctx["c12_k"]
        newc = tt["values"][k % len(tt["values"])]
        self.ck(len(onduty(node)) == newc, "servers_after_shift_change",
                lambda: "after shift change %d node %s has %d on duty, timetable says %d" % (k, node.id_number, len(onduty(node)), newc))
        for (i, nrec, end) in ctx["c12_inservice"]:
            if tt["preemption"] is False:
                if any(i is x for x in here(node)):
                    self.ck(bool(i.server) and EQ(i.service_end_date, end), "overtime_service_changed",
                            lambda: "customer %s in service at the shift end: end date %s -> %s" % (i.id_number, end, i.service_end_date))
                    self.seen("c12_overtime_services")
            else:
                new = [r for r in i.data_records[nrec:] if r.record_type == "interrupted service" and r.node == node.id_number]
                self.ck(len(new) >= 1, "shift_end_interruption_not_recorded",
                        lambda: "customer %s in service at the pre-emptive shift end %s has no interruption record" % (i.id_number, now))
                if new:
                    self.ck(EQ(new[0].exit_date, now), "interruption_not_at_shift_end")
                self.seen("c12_shift_interruptions")
        self.seen("c12_shift_changes")

    def pre_attach(self, node, server, ind):
        Q = self.Q
        tt = self.tt(node)
        if tt is None or tt["kind"] != "schedule":
            return
        now = Q.current_time
        for (lo, hi, v) in self.segments(tt):
            if v == 0:
                self.ck(AnyOf(LE(now, lo), LE(hi, now)), "service_start_in_zero_server_shift",
                        lambda: "customer %s starts service at node %s at %s inside the zero-server shift (%s, %s)" % (ind.id_number, node.id_number, now, lo, hi))
        intr = list(node.interrupted_individuals)
        preempting = any(p["event"] == Q.tr.event_no and p["newcomer"] == ind.id_number and p["node"] == node.id_number for p in Q.tr.preempts)
        if tt["preemption"] is not False and intr and not preempting:
            self.ck(any(ind is x for x in intr), "fresh_customer_before_interrupted",
                    lambda: "node %s: customer %s starts while interrupted customers %s wait" % (node.id_number, ind.id_number, [x.id_number for x in intr]))
            if any(ind is x for x in intr):
                for o in intr:
                    if o is ind:
                        continue
                    self.ck(o.priority_class >= ind.priority_class, "interrupted_restart_priority_order")
                    if o.priority_class == ind.priority_class:
                        self.ck(LE(ind.arrival_date, o.arrival_date), "interrupted_restart_arrival_order",
                                lambda: "node %s: interrupted customer %s (arrived %s) restarted before %s (arrived %s)" % (node.id_number, ind.id_number, ind.arrival_date, o.id_number, o.arrival_date))
                self.seen("c12_interrupted_restarts")

    # -- slotted --------------------------------------------------------------------------
    def pre_slot(self, node, ctx):
        Q = self.Q
        tt = self.tt(node)
        if tt is None:
            return
        now = Q.current_time
        k = self.slot_k.get(node.id_number, 0)
        self.slot_k[node.id_number] = k + 1
        s = tt["slots"]
        expect = tt["offset"] + s[k % len(s)] + (k // len(s)) * s[-1]
        self.ck(EQ(now, expect), "slot_date", lambda: "slot %d of node %s at %s, table says %s" % (k, node.id_number, now, expect))
        ctx["c12_size"] = tt["sizes"][k % len(s)]
        ctx["c12_started_before"] = {i.id_number for i in here(node) if i.service_start_date is not False}
        ctx["c12_waiting_before"] = len([i for i in here(node) if i.service_start_date is False])

    def post_slot(self, node, ctx):
        tt = self.tt(node)
        if tt is None:
            return
        now = self.Q.current_time
        size = ctx["c12_size"]
        started = [i for i in here(node) if i.service_start_date is not False and i.id_number not in ctx["c12_started_before"]]
        self.ck(len(started) <= size, "more_starts_than_slot_size",
                lambda: "slot at %s of node %s has size %d, %d services started" % (now, node.id_number, size, len(started)))
        for i in started:
            self.ck(EQ(i.service_start_date, now), "slot_start_date")
        if tt["capacitated"]:
            ins = [i for i in here(node) if i.service_start_date is not False]
            if tt["preemption"] is not False:
                self.ck(len(ins) <= size, "capacitated_slot_exceeded",
                        lambda: "capacitated slot of size %d at node %s: %d in service right after the slot" % (size, node.id_number, len(ins)))
            else:
                # non-pre-emptive: ongoing services are not interrupted; new starts fill only the remaining places
                self.ck(len(started) <= max(size - (len(ins) - len(started)), 0), "capacitated_slot_overfilled",
                        lambda: "capacitated slot of size %d at node %s: %d already in service, %d started" % (size, node.id_number, len(ins) - len(started), len(started)))
        else:
            # uncapacitated: as many as the slot size start if that many are waiting
            self.ck(len(started) == min(size, ctx["c12_waiting_before"]), "slot_not_filled",
                    lambda: "slot of size %d at node %s with %d waiting started %d" % (size, node.id_number, ctx["c12_waiting_before"], len(started)))
        self.seen("c12_slots")
        if started:
            self.seen("c12_slot_starts")


# ==============================================================================================
class C13(Monitor):
    """reneging and baulking"""
    prop = "C13"

    def at_init(self):
        self.patience = {}  # (ind id, visit index) -> symbol
        self.checked = {}

    def post_accept(self, node, ind, ctx):
        Q = self.Q
        if node.reneging:
            D = Q.network.customer_classes[ind.customer_class].reneging_time_distributions[node.id_number - 1]
            if D is not None and hasattr(D, "log"):
                mine = [v for (idn, t, v) in D.log if idn == ind.id_number]
                if mine:
                    vi = len(Q.tr.visits.get(ind.id_number, [])) - 1
                    self.patience[(ind.id_number, vi)] = (mine[-1], Q.current_time, node.id_number)

    def cur_patience(self, ind, node):
        vi = len(self.Q.tr.visits.get(ind.id_number, [])) - 1
        p = self.patience.get((ind.id_number, vi))
        if p is not None and p[2] == node.id_number:
            return p
        return None

    def pre_renege(self, node, ctx):
        cands = node.next_individual if isinstance(node.next_individual, list) else [node.next_individual]
        for i in cands:
            self.ck(not in_service(node, i) and not i.server, "customer_in_service_reneges",
                    lambda: "customer %s holding %s is about to renege at node %s" % (i.id_number, i.server, node.id_number))
        ctx["c13_pre"] = {i.id_number: (i, len(i.data_records), self.cur_patience(i, node), i.arrival_date) for i in here(node)}

    def post_renege(self, node, ctx):
        Q = self.Q
        now = Q.current_time
        gone = [v for idn, v in ctx["c13_pre"].items() if v[1] < len(v[0].data_records) and any(r.record_type == "renege" for r in v[0].data_records[v[1]:])]
        self.ck(len(gone) == 1, "renege_event_without_one_renege_record")
        for (i, nrec, p, arr) in gone:
            r = [x for x in i.data_records[nrec:] if x.record_type == "renege"][0]
            self.ck(r.node == node.id_number, "renege_record_node")
            self.ck(EQ(r.exit_date, now), "renege_record_not_at_now")
            self.ck(p is not None, "renege_without_patience", lambda: "customer %s reneged at node %s without a sampled patience" % (i.id_number, node.id_number))
            if p is not None:
                self.ck(EQ(r.exit_date, p[1] + p[0]), "renege_not_at_arrival_plus_patience",
                        lambda: "customer %s arrived %s with patience %s, reneged at %s" % (i.id_number, p[1], p[0], r.exit_date))
                self.ck(EQ(r.arrival_date, p[1]), "renege_record_arrival")
            tg = Q.tr.jockey.get(i.id_number, [None])[-1]
            if tg == -1:
                self.ck(any(i is x for x in Q.nodes[-1].all_individuals), "reneger_not_at_exit")
            elif tg is not None:
                self.ck(any(i is x for x in here(Q.nodes[tg])), "reneger_not_at_jockey_target")
                self.ck(EQ(i.arrival_date, now), "jockey_arrival_date")
                self.seen("c13_jockeys")
            self.seen("c13_reneges")

    def post_event(self, node, nxt, ctx):
        Q = self.Q
        now = Q.current_time
        for n in Q.transitive_nodes:
            if not n.reneging or isinf(n.c):
                continue
            for i in here(n):
                if not i.server and not i.interrupted:
                    p = self.cur_patience(i, n)
                    if p is not None:
                        if Q.flags.get("preempted_may_outwait") and any(r.record_type == "interrupted service" and r.node == n.id_number for r in i.data_records):
                            continue
                        self.ck(LE(now, p[1] + p[0]), "waited_longer_than_patience",
                                lambda: "after event %d at %s: customer %s still waits at node %s, arrived %s, patience %s" % (Q.tr.event_no, now, i.id_number, n.id_number, p[1], p[0]))
                        self.seen("c13_waiting_with_patience")

    # -- baulking: the harness' baulking function logs its calls in tr.baulk_calls -----------------
    def post_arrival(self, arr, ctx):
        Q = self.Q
        calls = [c for c in Q.tr.baulk_calls if c["event"] == Q.tr.event_no and not c.get("checked")]
        exit_inds = {i.id_number: i for i in Q.nodes[-1].all_individuals}
        for c in calls:
            c["checked"] = True
            self.ck(c["n"] == c["true_n"], "baulk_function_population",
                    lambda: "baulking function called with n=%s, %s customers were at node %s" % (c["n"], c["true_n"], c["node"]))
            x = exit_inds.get(c["ind"])
            baulked = x is not None and bool(x.data_records) and x.data_records[-1].record_type == "baulk"
            u, q = c["u"], c["q"]
            if baulked:
                self.ck(LT(u, q), "baulked_although_u_ge_q",
                        lambda: "customer %s baulked with probability %s and draw %s" % (c["ind"], q, u))
                r = x.data_records[-1]
                self.ck(len(x.data_records) == 1 and EQ(r.exit_date, ctx["t"]) and r.node == c["node"], "baulk_record")
                self.ck(r.queue_size_at_arrival == c["true_n"], "baulk_record_population")
                self.seen("c13_baulks")
            else:
                self.ck(LE(q, u), "joined_although_u_lt_q",
                        lambda: "customer %s joined with baulking probability %s and draw %s" % (c["ind"], q, u))
                self.ck(x is None or not any(r.record_type == "baulk" for r in x.data_records), "baulk_state")
                self.seen("c13_joins")


# ==============================================================================================
class C14(Monitor):
    """stopping rule of simulate_until_max_time / simulate_until_max_customers (exceptions are caught by the runner)"""
    prop = "C14"

    def at_init(self):
        self.exec_dates = []
        self.last_sig = None

    def post_event(self, node, nxt, ctx):
        """no progress: the same event at the same instant leaves the whole configuration unchanged -> the run would
        repeat it forever and never return"""
        Q = self.Q
        now = Q.current_time
        key = now.lin.key() if isinstance(now, SymReal) else now
        inds = all_inds(Q)
        sig = (E.EX.path_events[-1], key, tuple(len(here(n)) for n in Q.transitive_nodes), len(Q.nodes[-1].all_individuals),
               tuple(sorted(i.id_number for i in inds if i.is_blocked)), sum(len(i.data_records) for i in inds), len(Q.tr.arrivals),
               len(Q.tr.attach), len(Q.tr.detach), len(Q.tr.shifts), len(Q.tr.class_changes))
        if self.last_sig is not None:
            self.ck(sig != self.last_sig, "event_repeats_without_progress",
                    lambda: "event %d (%s at %s) changed nothing and is identical to the previous event: the run cannot advance" % (Q.tr.event_no, E.EX.path_events[-1], now))
        self.last_sig = sig

    def my_count(self, method):
        Q = self.Q
        X = Q.nodes[-1].all_individuals
        created = len(Q.tr.arrivals)
        if method == "Finish":
            return len(X)
        if method == "Arrive":
            return created
        if method == "Complete":
            return sum(1 for i in X if i.data_records and i.data_records[-1].record_type == "service" and i.data_records[-1].destination == -1)
        if method == "Accept":
            bad = sum(1 for i in X if i.data_records and i.data_records[0].record_type in ("rejection", "baulk"))
            return created - bad

    def pre_event(self, node, ctx):
        Q = self.Q
        self.exec_dates.append(Q.current_time)
        m = Q.flags.get("max_customers")
        if m:
            n, method = m
            cnt = self.my_count(method)
            self.ck(cnt < n, "ran_past_the_count",
                    lambda: "event %d executed although %s count is already %d >= %d" % (Q.tr.event_no, method, cnt, n))

    def at_end(self):
        Q = self.Q
        T = Q.flags.get("T")
        if T is not None:
            for d in self.exec_dates:
                self.ck(LT(d, T), "event_executed_at_or_after_T", lambda: "event at %s executed, horizon %s" % (d, T))
            for nd in Q.active_nodes:
                d = nd.next_event_date
                if isinstance(d, float) and not is_sym(d) and isinf(d) and d > 0:
                    continue
                self.ck(LE(T, d), "event_before_T_not_executed", lambda: "returned at horizon %s with %s due at %s" % (T, nd, d))
            self.ck(LE(T, Q.current_time) if not (isinstance(Q.current_time, float) and not is_sym(Q.current_time) and isinf(Q.current_time)) else True, "clock_before_T")
            self.seen("c14_returns_T")
        m = Q.flags.get("max_customers")
        if m:
            n, method = m
            cnt = self.my_count(method)
            self.ck(cnt >= n, "stopped_before_the_count", lambda: "returned with %s count %d < %d" % (method, cnt, n))
            self.seen("c14_returns_n")


# ==============================================================================================
def tracker_oracle(Q, tr, block_log_fifo):
    nodes = Q.transitive_nodes
    name = type(tr).__name__
    if name == "SystemPopulation":
        return sum(len(here(n)) for n in nodes)
    if name == "NodePopulation":
        return tuple(len(here(n)) for n in nodes)
    if name == "NodePopulationSubset":
        return tuple(len(here(nodes[k])) for k in tr.observed_nodes)
    if name == "GroupedNodePopulation":
        return tuple(sum(len(here(nodes[k])) for k in g) for g in tr.groups)
    if name == "NodeClassMatrix":
        names = Q.network.customer_class_names
        return tuple(tuple(sum(1 for i in here(n) if i.customer_class == c) for c in names) for n in nodes)
    if name == "NaiveBlocking":
        return tuple((sum(1 for i in here(n) if not i.is_blocked), sum(1 for i in here(n) if i.is_blocked)) for n in nodes)
    if name == "MatrixBlocking":
        # blockage-order matrix rebuilt from my own log of blockages still in force
        order = [b for b in block_log_fifo]
        N = len(nodes)
        M = [[[] for _ in range(N)] for _ in range(N)]
        for rank, (src, dst, idn) in enumerate(order, start=1):
            M[src - 1][dst - 1].append(rank)
        return (tuple(tuple(tuple(c) for c in row) for row in M), tuple(len(here(n)) for n in nodes))
    return None


class C17(Monitor):
    """state trackers equal the true configuration; history well-formed"""
    prop = "C17"

    def at_init(self):
        self.inforce = []  # blockages in force, in order
        self.states = []

    def pre_block(self, node, ind, dest):
        self.inforce.append((node.id_number, dest.id_number, ind.id_number))

    def pre_release(self, node, ind, dest, reroute, ctx):
        if ind.is_blocked:
            self.inforce = [b for b in self.inforce if b[2] != ind.id_number]

    def compare(self, where):
        Q = self.Q
        tr = Q.statetracker
        still = [b for b in self.inforce if any(i.id_number == b[2] and i.is_blocked for i in here(Q.nodes[b[0]]))]
        o = tracker_oracle(Q, tr, still)
        if o is None:
            return
        h = tr.hash_state()
        self.ck(h == o, "tracker_state",
                lambda: "%s: %s reports %s, configuration is %s" % (where, type(tr).__name__, h, o))

        def flat(x):
            if isinstance(x, (tuple, list)):
                for y in x:
                    yield from flat(y)
            else:
                yield x
        self.ck(all(v >= 0 for v in flat(h) if isinstance(v, int)), "negative_count", lambda: "%s reports %s" % (type(tr).__name__, h))
        self.seen("c17_state_checks")
        return h

    def post_event(self, node, nxt, ctx):
        h = self.compare("after event %d (%s)" % (self.Q.tr.event_no, E.EX.path_events[-1]))
        self.states.append((self.Q.current_time, h))

    def at_end(self):
        Q = self.Q
        tr = Q.statetracker
        if tracker_oracle(Q, tr, []) is None:
            return
        H = tr.history
        for a, b in zip(H, H[1:]):
            self.ck(LE(a[0], b[0]), "history_timestamps_decrease", lambda: "history %s then %s" % (a, b))
            self.ck(a[1] != b[1], "history_repeats_state", lambda: "history lists %s twice in a row" % (a[1],))
        # every change of the true state between two events appears once, at the event's instant
        if Q.flags.get("T") is not None:
            exp = [H[0]]
            for (t, h) in self.states:
                if h != exp[-1][1]:
                    exp.append([t, h])
            self.ck(len(exp) == len(H) and all(x[1] == y[1] for x, y in zip(exp, H)), "history_states",
                    lambda: "history states %s, true sequence %s" % ([x[1] for x in H], [x[1] for x in exp]))
            if len(exp) == len(H):
                for x, y in zip(exp, H):
                    self.ck(EQ(x[0], y[0]), "history_timestamp", lambda: "state %s entered at %s, history says %s" % (x[1], x[0], y[0]))
            self.seen("c17_histories")


# ==============================================================================================
def deadlock_oracle(Q):
    """greatest fixpoint: non-empty set of nodes all of whose servers hold customers blocked towards the set"""
    S = set()
    for n in Q.transitive_nodes:
        if finite(n) and n.c >= 1 and len(n.servers) > 0 and all(s.cust is not False and s.cust.is_blocked for s in n.servers):
            S.add(n.id_number)
    changed = True
    while changed:
        changed = False
        for nid in list(S):
            n = Q.nodes[nid]
            if any(s.cust.destination not in S for s in n.servers):
                S.discard(nid)
                changed = True
    return S


class C18(Monitor):
    """deadlock detection sound and complete; times to deadlock"""
    prop = "C18"

    def at_init(self):
        self.prev = False
        self.now_dl = False
        self.first_visit = {}
        Q = self.Q
        self.first_visit[Q.statetracker.hash_state()] = 0.0
        self.t_dl = None

    def pre_any_event(self, node):
        Q = self.Q
        if Q.flags.get("until_deadlock"):
            self.ck(not self.prev, "continued_after_deadlock",
                    lambda: "the run goes on to event %d (%s) although a deadlock exists since event %d" % (Q.tr.event_no + 1, node, Q.tr.event_no))

    def post_event(self, node, nxt, ctx):
        Q = self.Q
        S = deadlock_oracle(Q)
        self.now_dl = bool(S)
        self.prev = self.now_dl
        st = Q.statetracker.hash_state()
        if st not in self.first_visit:
            self.first_visit[st] = Q.current_time
        if S:
            self.seen("c18_oracle_deadlocks")
            self.t_dl = Q.current_time
        if any(i.is_blocked for n in Q.transitive_nodes for i in here(n)):
            self.seen("c18_blocked_states")
        # lemma (documented meaning of the state digraph): edge j -> k iff the customer at server j is blocked
        # towards the node that contains server k.  Not reported; marks the path for deepening.
        det = Q.deadlock_detector
        if hasattr(det, "statedigraph"):
            exp = set()
            for n in Q.transitive_nodes:
                if not finite(n):
                    continue
                for sv in n.servers:
                    c = sv.cust
                    if c is not False and c.is_blocked and numeric_dest(c.destination) and c.destination >= 1:
                        d = Q.nodes[c.destination]
                        if finite(d):
                            for s2 in d.servers:
                                exp.add((str(sv), str(s2)))
            if set(det.statedigraph.edges()) != exp:
                E.EX.tag("lemma:digraph_edges")
                self.seen("c18_lemma_digraph_failed")

    def at_end(self):
        Q = self.Q
        if not Q.flags.get("until_deadlock"):
            return
        self.ck(self.now_dl, "stopped_without_deadlock",
                lambda: "simulate_until_deadlock returned after event %d (%s) but some blocked customer can still move" % (Q.tr.event_no, E.EX.path_events[-1]))
        self.seen("c18_stops")
        ttd = Q.times_to_deadlock
        self.ck(set(ttd.keys()) == set(self.first_visit.keys()), "times_to_deadlock_states",
                lambda: "times_to_deadlock has states %s, visited %s" % (sorted(map(str, ttd)), sorted(map(str, self.first_visit))))
        for st, v in ttd.items():
            self.ck(LE(0, v), "negative_time_to_deadlock", lambda: "state %s: time to deadlock %s" % (st, v))
            if st in self.first_visit and self.t_dl is not None:
                self.ck(EQ(v, self.t_dl - self.first_visit[st]), "time_to_deadlock_value",
                        lambda: "state %s first visited %s, deadlock at %s, reported %s" % (st, self.first_visit[st], self.t_dl, v))


# ==============================================================================================
class C19(Monitor):
    """processor sharing: rate min(1, R/k), capacity, FCFS admission, work conservation"""
    prop = "C19"

    def at_init(self):
        self.work = {}
        self.last = {}
        self.req = {}

    def sharing(self, n):
        H = sorted(here(n), key=lambda i: i._acc)
        cap = n.ps_capacity
        return H if isinf(cap) else H[:cap]

    def pre_event(self, node, ctx):
        Q = self.Q
        now = Q.current_time
        for n in Q.transitive_nodes:
            if not is_ps(n):
                continue
            sh = self.sharing(n)
            k, R = len(sh), n.ps_threshold
            rate = Fraction(1) if k <= R else Fraction(R, k)
            last = self.last.get(n.id_number, 0)
            for i in sh:
                key = (i.id_number, len(Q.tr.visits[i.id_number]))
                self.work[key] = self.work.get(key, 0) + (now - last) * rate
            self.last[n.id_number] = now
        ctx["c19_pre"] = {n.id_number: {(i.id_number, len(Q.tr.visits[i.id_number])): i for i in here(n)} for n in Q.transitive_nodes if is_ps(n)}

    def post_accept(self, node, ind, ctx):
        pass

    def requirement(self, n, i, key):
        S = self.Q.service_times[n.id_number]
        out = []
        for cls, D in S.items():
            if hasattr(D, "log"):
                out += [(t, v) for (idn, t, v) in D.log if idn == i.id_number]
        # k-th visit of this customer to this node consumes its k-th draw there
        vis = [v for v in self.Q.tr.visits[i.id_number][:key[1]] if v["node"] == n.id_number]
        k = len(vis) - 1
        return out[k][1] if 0 <= k < len(out) else None

    def post_event(self, node, nxt, ctx):
        Q = self.Q
        for n in Q.transitive_nodes:
            if not is_ps(n):
                continue
            pre = ctx["c19_pre"][n.id_number]
            post = {(i.id_number, len(Q.tr.visits[i.id_number])): i for i in here(n)}
            for key, i in pre.items():
                if key in post:
                    continue
                req = self.requirement(n, i, key)
                w = self.work.get(key, 0)
                last_service = [r for r in i.data_records if r.record_type == "service" and r.node == n.id_number]
                if last_service and req is not None:
                    self.ck(EQ(w, req), "left_with_work_ne_requirement",
                            lambda: "customer %s left PS node %s having received %s, requirement %s" % (key[0], n.id_number, w, req))
                    self.seen("c19_departures")
            for key, i in post.items():
                req = self.requirement(n, i, key)
                w = self.work.get(key, 0)
                if req is not None and not i.is_blocked:
                    self.ck(LE(w, req), "overserved",
                            lambda: "customer %s still at PS node %s has received %s > requirement %s" % (key[0], n.id_number, w, req))
            ws = [i for i in here(n) if getattr(i, "with_server", False)]
            self.ck(len(ws) <= n.ps_capacity, "more_sharing_than_capacity")
            sh = self.sharing(n)
            self.ck({id(i) for i in ws} == {id(i) for i in sh}, "sharing_set_not_first_come",
                    lambda: "PS node %s: sharing %s, first-come set %s" % (n.id_number, sorted(i.id_number for i in ws), sorted(i.id_number for i in sh)))
            if len(sh) > n.ps_threshold:
                self.seen("c19_slowed")
            if len(here(n)) > len(sh):
                self.seen("c19_waiting_for_capacity")
