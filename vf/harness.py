"""Harness: symbolic sample sources, random stub, observing subclasses of Ciw's own extension points.

Nothing in /repo is edited.  Symbols enter through the public API (Distribution subclasses),
through rebinding of the `random` names in the harness process, and observation goes through
`node_class=` / `arrival_node_class=` subclasses whose overrides call super() and only read state.
"""
import math
import os
import sys

from . import engine as E
from .engine import EQ, LE, LT, AnyOf, AllOf, isnum

REPO = os.environ.get("VERIF_REPO", "/repo")
if REPO not in sys.path:
    sys.path.insert(0, REPO)

import ciw  # noqa: E402
import ciw.auxiliary  # noqa: E402
import ciw.node  # noqa: E402
import ciw.arrival_node  # noqa: E402

isinf = math.isinf


def check_ciw_origin():
    f = os.path.realpath(ciw.__file__)
    if not f.startswith(os.path.realpath(REPO) + os.sep):
        raise RuntimeError("ciw imported from %s, expected under %s" % (f, REPO))
    return f


# ----------------------------------------------------------------------------------------------
# environment stubs


class RandShim:
    """stands in for the module `random` inside ciw.auxiliary and for random() in node/arrival_node"""

    seed_hook = None
    last = None
    stream = "rnd"

    @staticmethod
    def random():
        v = E.EX.fresh_real(RandShim.stream, lo=0, hi=1, hi_strict=True)
        RandShim.last = v
        return v

    @staticmethod
    def seed(z):
        if RandShim.seed_hook is not None:
            RandShim.seed_hook(z)

    @staticmethod
    def normalvariate(mu, sd):
        raise E.Limitation("normalvariate under the engine")


_installed = False


def install_stubs():
    global _installed
    check_ciw_origin()
    ciw.auxiliary.random = RandShim
    ciw.node.random = RandShim.random
    ciw.arrival_node.random = RandShim.random
    _installed = True


STUBS = [
    "random.random() as seen by ciw.auxiliary / ciw.node / ciw.arrival_node -> fresh symbol in [0,1) (arbitrary stream)",
    "distribution objects -> SymDist: every sample a fresh real symbol >= 0 (inter-arrival > 0 unless row Z0)",
]


class SymDist(ciw.dists.Distribution):
    """arbitrary sample source: each draw is a fresh symbol; logs (ind id, t, value) per draw"""

    def __init__(self, name, lo=0, lo_strict=False, hi=None, limit=None, then=float("inf")):
        self.name = name
        self.lo, self.lo_strict, self.hi = lo, lo_strict, hi
        self.limit = limit  # after `limit` draws return `then` (burst streams)
        self.then = then
        self.log = []

    def __repr__(self):
        return "SymDist(%s)" % self.name

    def sample(self, t=None, ind=None):
        if self.limit is not None and len(self.log) >= self.limit:
            v = self.then
        else:
            v = E.EX.fresh_real(self.name, lo=self.lo, lo_strict=self.lo_strict, hi=self.hi)
        self.log.append((ind.id_number if ind is not None else None, t, v))
        return v

    def draws_for(self, idn):
        return [v for (i, _, v) in self.log if i == idn]


class ChoiceBatch(ciw.dists.Distribution):
    """batch sizes chosen nondeterministically from `sizes` (concrete per path); logs choices"""

    def __init__(self, sizes, label="batch", first=None):
        self.sizes = list(sizes)
        self.label = label
        self.first = first  # concrete size of the first batch (loaded start)
        self.log = []

    def sample(self, t=None, ind=None):
        if self.first is not None and not self.log:
            b = self.first
        elif len(self.sizes) == 1:
            b = self.sizes[0]
        else:
            b = self.sizes[E.EX.choose(len(self.sizes), self.label)]
        self.log.append(b)
        return b


class FixedSeq(ciw.dists.Distribution):
    """concrete sequence then a constant (used for batch sizes: first batch b then 1)"""

    def __init__(self, seq, then):
        self.seq, self.then, self.k = list(seq), then, 0
        self.log = []

    def sample(self, t=None, ind=None):
        v = self.seq[self.k] if self.k < len(self.seq) else self.then
        self.k += 1
        self.log.append(v)
        return v


# ----------------------------------------------------------------------------------------------
# vocabulary shared by the monitors (DESIGN.md section 3)


def here(n):
    return [i for q in n.individuals for i in q]


def is_ps(n):
    return isinstance(n, ciw.PSNode)


def finite(n):
    """ordinary node with a finite (possibly scheduled) number of real server objects"""
    return not isinf(n.c) and not n.slotted and not is_ps(n)


def in_service(n, i):
    if is_ps(n):
        return bool(getattr(i, "with_server", False))
    if finite(n):
        return bool(i.server) and not i.interrupted
    return i.service_start_date is not False and not i.interrupted


def served(n):
    return [i for i in here(n) if in_service(n, i)]


def waiting(n):
    return [i for i in here(n) if not in_service(n, i) and not i.interrupted]


def onduty(n):
    return [s for s in n.servers if not s.offduty]


def all_inds(Q):
    return [i for n in Q.nodes[1:] for i in n.all_individuals]


# ----------------------------------------------------------------------------------------------
# trace maintained by the observing subclasses (independent of Ciw's own counters)


class Trace:
    def __init__(self):
        self.seq = 0
        self.opseq = 0
        self.event_no = 0
        self.visits = {}       # ind id -> list of dict(node, seq, t, event)
        self.arrivals = {}     # ind id -> dict(node, cls, t)
        self.arr_events = []   # list of dict(node, cls, t, first, last)
        self.jockey = {}       # ind id -> list of target node ids
        self.block_fifo = {}   # dest id -> list of (node id, ind id) in blocking order
        self.block_time = {}   # ind id -> instant the blockage began
        self.block_log = []    # global order of blockages (node, dest, ind)
        self.attach = []       # dict(node, server, ind, t, event)
        self.detach = []       # dict(node, server, ind, t, event)
        self.freed = {}        # (event no, node id) -> reasons a server became free
        self.preempts = []     # dict(node, victim, newcomer, t, event, option)
        self.routes = []       # dict(node, ind, cls, answer, kind, event, ...)
        self.shifts = []       # dict(node, t, event, c)
        self.slots = []        # dict(node, t, event, size, started)
        self.reneges = []      # dict(node, ind, t, event, target)
        self.servers = {}      # (node id, server id) -> dict(start, killed)
        self.baulk_calls = []  # dict(node, n, q, ind)
        self.choices = []      # choose_next_customer log
        self.class_changes = []

    def freed_now(self, nid, why):
        self.freed.setdefault((self.event_no, nid), []).append(why)


# ----------------------------------------------------------------------------------------------
# observing subclasses


def _dispatch(Q, hook, *a):
    for m in Q.hooks.get(hook, ()):
        m(*a)


class MonMixin:
    """overrides call super() and only read state / append to the trace"""

    def accept(self, ind, *args, **kwargs):
        Q = self.simulation
        tr = Q.tr
        tr.seq += 1
        ind._acc = tr.seq
        v = dict(node=self.id_number, seq=tr.seq, t=Q.current_time, event=tr.event_no)
        tr.visits.setdefault(ind.id_number, []).append(v)
        ctx = {}
        _dispatch(Q, "pre_accept", self, ind, ctx)
        super().accept(ind, *args, **kwargs)
        _dispatch(Q, "post_accept", self, ind, ctx)

    def attach_server(self, server, individual):
        Q = self.simulation
        _dispatch(Q, "pre_attach", self, server, individual)
        Q.tr.opseq += 1
        Q.tr.attach.append(dict(node=self.id_number, server=server.id_number, ind=individual.id_number,
                                t=Q.current_time, event=Q.tr.event_no, sobj=server, seq=Q.tr.opseq))
        super().attach_server(server, individual)

    def detatch_server(self, server, individual):
        Q = self.simulation
        Q.tr.opseq += 1
        Q.tr.detach.append(dict(node=self.id_number, server=server.id_number, ind=individual.id_number,
                                t=Q.current_time, event=Q.tr.event_no, seq=Q.tr.opseq))
        Q.tr.freed_now(self.id_number, "detach")
        super().detatch_server(server, individual)

    def add_new_servers(self, num_servers):
        Q = self.simulation
        before = len(self.servers)
        super().add_new_servers(num_servers)
        for s in self.servers[before:]:
            Q.tr.servers[(self.id_number, s.id_number)] = dict(start=Q.current_time, killed=None, obj=s)
        if num_servers:
            Q.tr.freed_now(self.id_number, "new_servers")

    def kill_server(self, srvr):
        Q = self.simulation
        rec = Q.tr.servers.get((self.id_number, srvr.id_number))
        if rec is not None:
            rec["killed"] = Q.current_time
        super().kill_server(srvr)

    def preempt(self, individual_to_preempt, next_individual):
        Q = self.simulation
        ctx = {}
        Q.tr.freed_now(self.id_number, "preempt")
        _dispatch(Q, "pre_preempt", self, individual_to_preempt, next_individual, ctx)
        Q.tr.preempts.append(dict(node=self.id_number, victim=individual_to_preempt.id_number,
                                  newcomer=next_individual.id_number, t=Q.current_time,
                                  event=Q.tr.event_no, option=self.priority_preempt))
        super().preempt(individual_to_preempt, next_individual)
        _dispatch(Q, "post_preempt", self, individual_to_preempt, next_individual, ctx)

    def interrupt_service(self, individual):
        Q = self.simulation
        _dispatch(Q, "pre_interrupt", self, individual)
        super().interrupt_service(individual)

    def next_node(self, ind):
        Q = self.simulation
        ctx = {}
        _dispatch(Q, "pre_route", self, ind, "next", ctx)
        r = super().next_node(ind)
        Q.tr.routes.append(dict(node=self.id_number, ind=ind.id_number, cls=ind.customer_class,
                                answer=r.id_number, kind="next", event=Q.tr.event_no))
        _dispatch(Q, "post_route", self, ind, r, "next", ctx)
        return r

    def next_node_for_rerouting(self, ind):
        Q = self.simulation
        ctx = {}
        _dispatch(Q, "pre_route", self, ind, "reroute", ctx)
        r = super().next_node_for_rerouting(ind)
        Q.tr.routes.append(dict(node=self.id_number, ind=ind.id_number, cls=ind.customer_class,
                                answer=r.id_number, kind="reroute", event=Q.tr.event_no))
        _dispatch(Q, "post_route", self, ind, r, "reroute", ctx)
        return r

    def next_node_for_jockeying(self, ind):
        Q = self.simulation
        r = super().next_node_for_jockeying(ind)
        Q.tr.jockey.setdefault(ind.id_number, []).append(r.id_number)
        return r

    def block_individual(self, individual, next_node):
        Q = self.simulation
        _dispatch(Q, "pre_block", self, individual, next_node)
        Q.tr.block_fifo.setdefault(next_node.id_number, []).append((self.id_number, individual.id_number))
        Q.tr.block_time[individual.id_number] = Q.current_time
        Q.tr.block_log.append((self.id_number, next_node.id_number, individual.id_number))
        super().block_individual(individual, next_node)

    def release(self, next_individual, next_node, reroute=False):
        Q = self.simulation
        ctx = {}
        _dispatch(Q, "pre_release", self, next_individual, next_node, reroute, ctx)
        super().release(next_individual, next_node, reroute)
        _dispatch(Q, "post_release", self, next_individual, next_node, reroute, ctx)

    def renege(self):
        Q = self.simulation
        ctx = {}
        _dispatch(Q, "pre_renege", self, ctx)
        super().renege()
        _dispatch(Q, "post_renege", self, ctx)

    def change_shift(self):
        Q = self.simulation
        ctx = {}
        _dispatch(Q, "pre_shift", self, ctx)
        super().change_shift()
        Q.tr.shifts.append(dict(node=self.id_number, t=Q.current_time, event=Q.tr.event_no, c=self.c))
        _dispatch(Q, "post_shift", self, ctx)

    def slotted_service(self):
        Q = self.simulation
        ctx = {}
        _dispatch(Q, "pre_slot", self, ctx)
        super().slotted_service()
        _dispatch(Q, "post_slot", self, ctx)

    def choose_next_customer(self):
        Q = self.simulation
        r = super().choose_next_customer()
        _dispatch(Q, "post_choose", self, r)
        return r

    def change_customer_class(self, individual):
        Q = self.simulation
        before = individual.customer_class
        super().change_customer_class(individual)
        if self.class_change:
            Q.tr.class_changes.append(dict(node=self.id_number, ind=individual.id_number, old=before,
                                           new=individual.customer_class, event=Q.tr.event_no, kind="after"))
        _dispatch(Q, "post_class_change", self, individual, before)

    def change_customer_class_while_waiting(self):
        Q = self.simulation
        ind = self.next_individual
        before = ind.customer_class if ind is not None else None
        _dispatch(Q, "pre_class_change_waiting", self, ind)
        super().change_customer_class_while_waiting()
        Q.tr.class_changes.append(dict(node=self.id_number, ind=ind.id_number, old=before,
                                       new=ind.customer_class, event=Q.tr.event_no, kind="waiting"))


class _StartServers:
    def create_starting_servers(self):
        servers = super().create_starting_servers()
        for s in servers:
            self.simulation.tr.servers[(self.id_number, s.id_number)] = dict(start=0.0, killed=None, obj=s)
        return servers


class MonNode(_StartServers, MonMixin, ciw.Node):
    pass


class MonPSNode(_StartServers, MonMixin, ciw.PSNode):
    pass


class MonArrivalNode(ciw.ArrivalNode):
    def have_event(self):
        Q = self.simulation
        tr = Q.tr
        ctx = dict(node=self.next_node, cls=self.next_class, first=self.number_of_individuals + 1, t=Q.current_time)
        _dispatch(Q, "pre_arrival", self, ctx)
        super().have_event()
        ctx["last"] = self.number_of_individuals
        tr.arr_events.append(dict(node=ctx["node"], cls=ctx["cls"], t=ctx["t"], first=ctx["first"], last=ctx["last"]))
        for idn in range(ctx["first"], ctx["last"] + 1):
            tr.arrivals[idn] = dict(node=ctx["node"], cls=ctx["cls"], t=ctx["t"])
        _dispatch(Q, "post_arrival", self, ctx)


class MonSimulation(ciw.Simulation):
    """the real loops run unmodified; the hook sits in the override of event_and_return_nextnode"""

    def __init__(self, network, monitors=(), K=6, flags=None, **kw):
        self.tr = Trace()
        self.K = K
        self.flags = flags or {}
        self.monitors = list(monitors)
        self.hooks = {}
        for m in self.monitors:
            m.Q = self
            for name in dir(m):
                if name.startswith(("pre_", "post_")) or name in ("at_init", "at_end"):
                    self.hooks.setdefault(name, []).append(getattr(m, name))
        kw.setdefault("arrival_node_class", MonArrivalNode)
        super().__init__(network, **kw)
        _dispatch(self, "at_init")

    def event_and_return_nextnode(self, next_active_node):
        ex = E.EX
        tr = self.tr
        _dispatch(self, "pre_any_event", next_active_node)
        if tr.event_no >= self.K:
            # lemma-guided deepening: a path on which a monitor's lemma (a fact stronger than the property) already
            # failed is followed a few events past the bound, looking for a violation of the property itself
            extra = self.flags.get("deepen", 0)
            if not (extra and tr.event_no < self.K + extra and any(t.startswith("lemma:") for t in ex.tags)):
                raise E.Abort()
            ex.seen("deepened_events")
        tr.event_no += 1
        ex.events += 1
        ctx = {}
        _dispatch(self, "pre_event", next_active_node, ctx)
        etype = "arrival" if next_active_node is self.nodes[0] else next_active_node.next_event_type
        nid = 0 if next_active_node is self.nodes[0] else next_active_node.id_number
        ex.path_events.append("%s@%s" % (etype, nid))
        ex.seen("ev_" + str(etype))
        r = super().event_and_return_nextnode(next_active_node)
        _dispatch(self, "post_event", next_active_node, r, ctx)
        return r

    def finish(self):
        _dispatch(self, "at_end")


class Monitor:
    """base class: hooks are methods named pre_*/post_*/at_init/at_end"""

    prop = "C00"
    Q = None

    def ck(self, cond, mon, msg=""):
        E.EX.check(cond, "%s.%s" % (self.prop, mon), msg)

    def seen(self, k, n=1):
        E.EX.seen(k, n)
