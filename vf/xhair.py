"""Engine B: CrossHair on unit kernels (cross-check).  A counterexample is replayed on the real function before it is
reported; 'not confirmed' / 'unable to meet precondition' are inconclusive and never fail a check."""
import os
import re
import subprocess
import sys
import time

VERIF = os.path.dirname(os.path.dirname(os.path.abspath(__file__)))


def run_kernels(files, per_condition_timeout=20):
    out = {"confirmed": 0, "not_confirmed": 0, "counterexamples": [], "raw": [], "wall_s": 0.0}
    t0 = time.time()
    exe = os.path.join(os.path.dirname(sys.executable), "crosshair")
    for f in files:
        path = os.path.join(VERIF, "kernels", f)
        try:
            r = subprocess.run([exe, "check", "--report_all", "--per_condition_timeout", str(per_condition_timeout), path],
                               capture_output=True, text=True, timeout=per_condition_timeout * 8 + 60,
                               env=dict(os.environ, PYTHONPATH=os.environ.get("PYTHONPATH", "")))
        except Exception as e:
            out["raw"].append("%s: crosshair did not run: %s" % (f, e))
            continue
        for line in (r.stdout + r.stderr).splitlines():
            out["raw"].append(line[:300])
            if "info: Confirmed over all paths" in line:
                out["confirmed"] += 1
            elif "info: Not confirmed" in line or "Unable to meet precondition" in line:
                out["not_confirmed"] += 1
            elif "error:" in line:
                m = re.search(r"when calling (\w+)\((.*?)\)(?: with (crosshair\.patch_to_return\(\{.*?\}\)))?(?: \(which returns .*\))?$", line)
                if m:
                    out["counterexamples"].append({"file": f, "function": m.group(1), "args": m.group(2), "patch": m.group(3), "line": line[:300]})
    out["wall_s"] = round(time.time() - t0, 1)
    return out


def replay(ce):
    """run the counterexample on the real function; returns (reproduced, description)"""
    mod = ce["file"][:-3]
    code = "import random, _random, crosshair\nfrom kernels.%s import *\n" % mod
    call = "%s(%s)" % (ce["function"], ce["args"])
    if ce["patch"]:
        code += "with %s:\n    _r = %s\n" % (ce["patch"], call)
    else:
        code += "_r = %s\n" % call
    ns = {}
    try:
        sys.path.insert(0, VERIF)
        exec(code, ns)
    except Exception as e:
        return True, "%s raised %s: %s" % (call, type(e).__name__, e)
    finally:
        sys.path.remove(VERIF)
    r = ns["_r"]
    args = eval("(%s,)" % ce["args"], {"float": float, "nan": float("nan"), "inf": float("inf")})
    post = {"k_weighted3": "post_weighted", "k_weighted2": "post_weighted2"}.get(ce["function"])
    if post:
        ok = ns[post](r, *args)
    elif ce["function"] == "k_uniform":
        ok = 0 <= r < args[0]
    else:
        return False, "no post-condition replay for %s" % ce["function"]
    return (not ok), "%s with %s returned %r" % (call, ce["patch"], r)
