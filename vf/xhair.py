"""Engine B: CrossHair on unit kernels (cross-check).  A counterexample is replayed on the real function before it is
reported; 'not confirmed' / 'unable to meet precondition' are inconclusive and never fail a check."""
import os
import re
import subprocess
import sys
import time

VERIF = os.path.dirname(os.path.dirname(os.path.abspath(__file__)))


def run_kernels(files, per_condition_timeout=20):
    out = {"confirmed": 0, "not_confirmed": 0, "counterexamples": [], "raw": [], "wall_s": 0.0}
    t0 = time.time()
    exe = os.path.join(os.path.dirname(sys.executable), "crosshair")
    for f in files:
        path = os.path.join(VERIF, "kernels", f)
        try:
            r = subprocess.run([exe, "check", "--report_all", "--per_condition_timeout", str(per_condition_timeout), path],
                               capture_output=True, text=True, timeout=per_condition_timeout * 8 + 60,
                               env=dict(os.environ, PYTHONPATH=os.environ.get("PYTHONPATH", "")))
        except Exception as e:
            out["raw"].append("%s: crosshair did not run: %s" % (f, e))
            continue
        for line in (r.stdout + r.stderr).splitlines():
            out["raw"].append(line[:300])
            if "info: Confirmed over all paths" in line:
                out["confirmed"] += 1
            elif "info: Not confirmed" in line or "Unable to meet precondition" in line:
                out["not_confirmed"] += 1
            elif "error:" in line:
                m = re.search(r"when calling (\w+)\((.*?)\)(?: with (crosshair\.patch_to_return\(\{.*?\}\)))?(?: \(which returns .*\))?$", line)
                if m:
                    out["counterexamples"].append({"file": f, "function": m.group(1), "args": m.group(2), "patch": m.group(3), "line": line[:300]})
    out["wall_s"] = round(time.time() - t0, 1)
    return out


def replay(ce):
    """run the counterexample on the real function in a clean interpreter (no harness stubs); returns
    (reproduced, description)"""
    import json
    import subprocess
    mod = ce["file"][:-3]
    post = {"k_weighted3": "post_weighted", "k_weighted2": "post_weighted2"}.get(ce["function"])
    call = "%s(%s)" % (ce["function"], ce["args"])
    lines = ["import sys, json, random, _random, crosshair", "sys.path.insert(0, %r)" % VERIF, "from kernels.%s import *" % mod,
             "nan = float('nan'); inf = float('inf')", "try:"]
    if ce["patch"]:
        lines += ["    with %s:" % ce["patch"], "        _r = %s" % call]
    else:
        lines += ["    _r = %s" % call]
    lines += ["except Exception as e:", "    print(json.dumps({'raised': type(e).__name__ + ': ' + str(e)})); sys.exit(0)"]
    if post:
        lines += ["print(json.dumps({'result': repr(_r), 'post': bool(%s(_r, %s))}))" % (post, ce["args"])]
    elif ce["function"] == "k_uniform":
        lines += ["print(json.dumps({'result': repr(_r), 'post': bool(0 <= _r < (%s))}))" % ce["args"]]
    else:
        return False, "no post-condition replay for %s" % ce["function"]
    try:
        r = subprocess.run([sys.executable, "-c", "\n".join(lines)], capture_output=True, text=True, timeout=120,
                           env=dict(os.environ, PYTHONPATH=os.environ.get("PYTHONPATH", "")))
        out = json.loads(r.stdout.strip().splitlines()[-1])
    except Exception as e:
        return False, "replay did not run: %s" % e
    if "raised" in out:
        return True, "%s with %s raised %s" % (call, ce["patch"], out["raised"])
    return (not out["post"]), "%s with %s returned %s" % (call, ce["patch"], out["result"])
