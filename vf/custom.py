"""Custom path functions: unit obligations on kernels and self-composition harnesses (C09 unit,
C10 validity, C12 generator, C15, C16, C17 state_probabilities, C19 relational)."""
import itertools
import math
import os
import traceback
from fractions import Fraction

from . import engine as E
from .engine import EQ, LE, LT, AnyOf, AllOf, RatioEQ, isnum, is_sym, SymReal, SymRatio
from . import harness as H
from . import configs as C
from . import monitors as M
from .harness import ciw, SymDist, RandShim, here

INF = float("inf")


def _ck(cond, mon, msg=""):
    E.EX.check(cond, mon, msg)


class SoftStop(BaseException):
    """fuel reached inside a self-composition run: stop this run, keep the path"""


class SoftSim(H.MonSimulation):
    """like MonSimulation but the fuel bound ends the run instead of the path"""

    def event_and_return_nextnode(self, next_active_node):
        if self.tr.event_no >= self.K:
            self.hit_fuel = True
            raise SoftStop()
        return super().event_and_return_nextnode(next_active_node)


# ==============================================================================================
# C09 unit: auxiliary.random_choice


def _grid_vectors(nmax=3):
    vals = [Fraction(k, 4) for k in range(5)]
    out = []
    for n in range(1, nmax + 1):
        for v in itertools.product(vals, repeat=n):
            if sum(v) <= 1:
                out.append([float(x) for x in v] + [float(1 - sum(v))])
    return out


GRID = _grid_vectors()


def unit_random_choice(task):
    weighted = task["cfg"][1].get("weighted", True)

    def fn(ex):
        RandShim.last = None
        ex.path_events.append("random_choice")
        ex.events += 1
        if weighted:
            probs = GRID[ex.choose(len(GRID), "probs")]
            n = len(probs)
            arr = list(range(n))
            try:
                r = ciw.random_choice(arr, list(probs))
            except Exception as e:
                raise E.Violation("C09.random_choice_exception", "random_choice(%s) raised %s: %s" % (probs, type(e).__name__, e), ex._model(None) if ex.symbolic else None)
            u = RandShim.last
            _ck(probs[r] > 0, "C09.random_choice_zero_probability", lambda: "random_choice returned index %d of probs %s (u=%s)" % (r, probs, u))
            if u is not None:
                lo = sum(Fraction(p) for p in probs[:r])
                hi = lo + Fraction(probs[r])
                _ck(AllOf(LE(lo, u), LE(u, hi)), "C09.random_choice_interval",
                    lambda: "random_choice returned index %d for u=%s, its interval is [%s, %s]" % (r, u, lo, hi))
                ex.seen("c09_unit_sampled")
            else:
                ex.seen("c09_unit_shortcut")
        else:
            n = 2 + ex.choose(4, "n")
            arr = list(range(n))
            try:
                r = ciw.random_choice(arr)
            except Exception as e:
                raise E.Violation("C09.random_choice_exception", "random_choice(range(%d)) raised %s: %s" % (n, type(e).__name__, e), ex._model(None) if ex.symbolic else None)
            u = RandShim.last
            _ck(AllOf(LE(Fraction(r, n), u), LT(u, Fraction(r + 1, n))), "C09.random_choice_uniform",
                lambda: "uniform random_choice over %d returned %d for u=%s" % (n, r, u))
            ex.seen("c09_unit_uniform")

    return fn


# ==============================================================================================
# C10 validity of samples


class RawDist(ciw.dists.Distribution):
    """returns unconstrained symbols (any real) or, for `values`, a nondeterministically chosen concrete object"""

    def __init__(self, name, values=None, after=0, ok=None):
        self.name, self.values, self.after, self.log = name, values, after, []
        self.ok = ok  # well-behaved source for the first `after` draws

    def sample(self, t=None, ind=None):
        if len(self.log) < self.after:
            v = E.EX.fresh_real(self.name + "ok", lo=0, lo_strict=True)
        elif self.values is not None:
            v = self.values[E.EX.choose(len(self.values), self.name)]
        else:
            v = E.EX.fresh_real(self.name, lo=None)
        self.log.append(v)
        return v


def _valid_time(v):
    if isinstance(v, bool):
        return True  # bool is an int in Python: True counts as 1
    if isinstance(v, (int, float)) and not is_sym(v):
        return v == v and v >= 0
    if not is_sym(v):
        return False  # not a number at all
    return None  # symbolic: decided by the solver


def validity(task):
    kind = task["cfg"][1]["kind"]
    symbolic = task["cfg"][1].get("symbolic", True)
    K = task["K"]
    BAD = [-1.0, -1, None, "2.0", float("nan"), 0, 0.0, 1.5, float("inf")]
    BATCH = [-1, 0, 1, 1.0, 2, None, "1", 2.5]

    def fn(ex):
        arrd = SymDist("a", lo=0, lo_strict=True)
        svcd = SymDist("s")
        batd = ciw.dists.Deterministic(1)
        raw = None
        if kind == "arrival":
            arrd = raw = RawDist("a", None if symbolic else BAD, after=task["cfg"][1].get("after", 0))
        elif kind == "service":
            svcd = raw = RawDist("s", None if symbolic else BAD, after=task["cfg"][1].get("after", 0))
        elif kind == "batch":
            batd = raw = RawDist("b", BATCH)
        net = ciw.create_network(arrival_distributions=[arrd], service_distributions=[svcd], number_of_servers=[task["cfg"][1].get("c", 1)],
                                 batching_distributions=[batd])
        err = None
        Q = None
        try:
            Q = H.MonSimulation(net, monitors=[], K=K, node_class=H.MonNode)
            T = ex.fresh_real("T", lo=0, lo_strict=True)
            Q.simulate_until_max_time(T)
        except ValueError as e:
            err = e
        except Exception as e:
            raise E.Violation("C10.invalid_sample_other_exception", "%s sample: %s: %s" % (kind, type(e).__name__, e), ex._model(None) if ex.symbolic else None)
        # the live copies (Simulation deep-copies the distributions)
        if Q is not None:
            live = {"arrival": Q.inter_arrival_times[1]["Customer"], "service": Q.service_times[1]["Customer"], "batch": Q.batch_sizes[1]["Customer"]}[kind]
        else:
            live = raw
        log = live.log if hasattr(live, "log") else raw.log
        if Q is None:
            # raised inside Simulation.__init__ (first inter-arrival draw): the deep copy holds the log
            log = _find_log(err, raw) or raw.log
        ex.seen("c10_validity_runs")
        if err is not None:
            ex.seen("c10_validity_raised")
            v = log[-1] if log else None
            if kind == "batch":
                ok = isinstance(v, int) and not isinstance(v, bool) and v >= 0
                _ck(not ok, "C10.valid_batch_rejected", lambda: "batch size %r raised %s" % (v, err))
            else:
                vt = _valid_time(v)
                if vt is None:
                    _ck(LT(v, 0), "C10.valid_sample_rejected", lambda: "%s sample %s raised %s although it may be >= 0" % (kind, v, err))
                else:
                    _ck(not vt, "C10.valid_sample_rejected", lambda: "%s sample %r raised %s" % (kind, v, err))
        # every sample that was accepted (all but the one that raised) must be valid
        used = log[:-1] if err is not None else log
        for v in used:
            if kind == "batch":
                ok = isinstance(v, int) and not isinstance(v, bool) and v >= 0
                _ck(ok, "C10.invalid_batch_accepted", lambda: "batch size %r was accepted" % (v,))
            else:
                vt = _valid_time(v)
                if vt is None:
                    _ck(LE(0, v), "C10.invalid_sample_accepted", lambda: "%s sample %s was accepted although it may be negative" % (kind, v))
                else:
                    _ck(vt, "C10.invalid_sample_accepted", lambda: "%s sample %r was accepted" % (kind, v))
            ex.seen("c10_validity_samples")

    return fn


def _find_log(err, raw):
    """when Simulation.__init__ raised, find the deep copy of `raw` through the traceback frames"""
    tb = err.__traceback__
    while tb is not None:
        slf = tb.tb_frame.f_locals.get("self")
        if isinstance(slf, RawDist) and slf.name == raw.name and slf.log:
            return slf.log
        tb = tb.tb_next
    return None


# ==============================================================================================
# C12 unit: schedule / slot generators against the closed form, symbolic boundaries and offset


def unit_schedule(task):
    kind = task["cfg"][1].get("kind", "schedule")
    n = task["cfg"][1].get("n", 3)
    cycles = task["cfg"][1].get("cycles", 3)

    def fn(ex):
        ex.path_events.append("generator")
        ex.events += 1
        off = ex.fresh_real("off", lo=0)
        b = []
        cur = 0
        for k in range(n):
            cur = cur + ex.fresh_real("d", lo=0, lo_strict=True)
            b.append(cur)
        vals = [1, 0, 2, 3, 1][:n]
        try:
            if kind == "schedule":
                s = ciw.Schedule(numbers_of_servers=list(vals), shift_end_dates=list(b), offset=off)
                s.initialise()
                _ck(s.c == 0 and s.next_c == vals[0], "C12.unit_initial_shift")
                _ck(EQ(s.next_shift_change_date, off), "C12.unit_first_change_at_offset")
                for k in range(n * cycles):
                    s.get_next_shift()
                    _ck(s.c == vals[k % n], "C12.unit_servers_in_shift", lambda: "shift %d has %s servers, timetable %s" % (k, s.c, vals))
                    exp = off + b[k % n] + (k // n) * b[-1]
                    _ck(EQ(s.next_shift_change_date, exp), "C12.unit_shift_end_date", lambda: "shift %d ends %s, timetable %s" % (k, s.next_shift_change_date, exp))
                    ex.seen("c12_unit_shifts")
            else:
                s = ciw.Slotted(slots=list(b), slot_sizes=list(vals), offset=off)
                s.initialise()
                for k in range(n * cycles):
                    exp = off + b[k % n] + (k // n) * b[-1]
                    _ck(EQ(s.next_slot_date, exp), "C12.unit_slot_date", lambda: "slot %d at %s, table %s" % (k, s.next_slot_date, exp))
                    _ck(s.slot_size == vals[k % n], "C12.unit_slot_size", lambda: "slot %d has size %s, table %s" % (k, s.slot_size, vals))
                    s.get_next_slot()
                    ex.seen("c12_unit_slots")
        except Exception as e:
            raise E.Violation("C12.unit_exception", "%s: %s" % (type(e).__name__, e), ex._model(None) if ex.symbolic else None)

    return fn


# ==============================================================================================
# C17 unit: StateTracker.state_probabilities on a symbolic history and window


def unit_state_probabilities(task):
    n = task["cfg"][1].get("n", 3)          # history length
    beyond = task["cfg"][1].get("beyond", True)

    def fn(ex):
        ex.path_events.append("state_probabilities")
        ex.events += 1
        net = ciw.create_network(arrival_distributions=[ciw.dists.Deterministic(1.0)], service_distributions=[ciw.dists.Deterministic(1.0)], number_of_servers=[1])
        Q = ciw.Simulation(net, tracker=ciw.trackers.SystemPopulation())
        tr = Q.statetracker
        # history: t0 = 0, non-decreasing dates, consecutive states differ, states in {0,1,2}
        hist = [[0.0, 0]]
        t = 0.0
        for k in range(1, n):
            t = t + ex.fresh_real("dt", lo=0)
            prev = hist[-1][1]
            others = [s for s in (0, 1, 2) if s != prev]
            hist.append([t, others[ex.choose(2, "state")]])
        tr.history = [list(h) for h in hist]
        start = ex.fresh_real("start", lo=0)
        end = start + ex.fresh_real("len", lo=0, lo_strict=True)
        if not beyond:
            ex.assume(LE(end, hist[-1][0]))
        try:
            res = tr.state_probabilities(observation_period=(start, end))
        except Exception as e:
            raise E.Violation("C17.state_probabilities_exception", "history %s window (%s, %s): %s: %s" % (hist, start, end, type(e).__name__, e), ex._model(None) if ex.symbolic else None)
        # my own time shares: state k holds on [t_k, t_{k+1}), the last one until `end`
        exp = {}
        for k, (tk, sk) in enumerate(hist):
            nxt = hist[k + 1][0] if k + 1 < len(hist) else end
            lo = tk if tk > start else start       # forks: the oracle partitions the input space
            hi = nxt if nxt < end else end
            if hi > lo:
                exp[sk] = exp.get(sk, 0) + (hi - lo)
        total = end - start
        for s, v in res.items():
            e = exp.get(s, 0)
            if isinstance(v, SymRatio):
                _ck(RatioEQ(SymReal(v.num), SymReal(v.den), e, total), "C17.state_probability_value",
                    lambda: "history %s window (%s,%s): state %s gets probability %s/%s, its time share is %s/%s" % (hist, start, end, s, SymReal(v.num), SymReal(v.den), e, total))
            elif is_sym(v):
                raise E.Limitation("state_probabilities returned an undivided symbol")
            else:
                _ck(RatioEQ(v, 1.0, e, total), "C17.state_probability_value", lambda: "history %s window (%s,%s): state %s has probability %s, its time share is %s/%s" % (hist, start, end, s, v, e, total))
            ex.seen("c17_unit_states")
        for s, e in exp.items():
            _ck(s in res, "C17.state_probability_missing", lambda: "state %s with time share %s missing from the result %s" % (s, e, res))
        ex.seen("c17_unit_windows")

    return fn


# ==============================================================================================
# shared by the self-composition harnesses


def _records(Q):
    out = []
    for ind in sorted(H.all_inds(Q), key=lambda i: i.id_number):
        for r in ind.data_records:
            out.append(r)
    return out


def _same_value(a, b):
    if isinstance(a, float) and not is_sym(a) and a != a:
        return isinstance(b, float) and not is_sym(b) and b != b
    if isnum(a) and isnum(b):
        return EQ(a, b)
    return a == b


def compare_records(R1, R2, mon, what):
    _ck(len(R1) == len(R2), mon + "_count", lambda: "%s: %d records vs %d records" % (what, len(R1), len(R2)))
    for r1, r2 in zip(R1, R2):
        for f in r1._fields:
            a, b = getattr(r1, f), getattr(r2, f)
            _ck(_same_value(a, b), mon + "_field", lambda: "%s: records differ in %s: %s vs %s\n   %s\n   %s" % (what, f, a, b, tuple(r1), tuple(r2)))


def _run_soft(Q, T):
    Q.hit_fuel = False
    try:
        Q.simulate_until_max_time(T)
    except SoftStop:
        pass
    return not Q.hit_fuel


# ==============================================================================================
# C15 reproducibility: seeded stream model, three runs in one path


class StreamState:
    pos = 0


class SeededDist(ciw.dists.Distribution):
    """a distribution drawing from the seeded global stream: draw number i of the process (since the last
    seed) made by distribution `name` is the symbol name@i  (an arbitrary but fixed function of the stream)"""

    def __init__(self, name, lo_strict=False):
        self.name, self.lo_strict = name, lo_strict

    def sample(self, t=None, ind=None):
        i = StreamState.pos
        StreamState.pos += 1
        ex = E.EX
        nm = "%s@%d" % (self.name, i)
        ex.counter[nm] = 0
        return ex.fresh_real(nm, lo=0, lo_strict=self.lo_strict)


class StatefulDist(ciw.dists.Distribution):
    """a custom distribution with internal state (alternates between two seeded sources)"""

    def __init__(self, name):
        self.k = 0
        self.a, self.b = SeededDist(name + "even"), SeededDist(name + "odd")

    def sample(self, t=None, ind=None):
        self.k += 1
        return (self.a if self.k % 2 else self.b).sample(t, ind)


def _seeded_random():
    i = StreamState.pos
    StreamState.pos += 1
    nm = "g@%d" % i
    E.EX.counter[nm] = 0
    v = E.EX.fresh_real(nm, lo=0, hi=1, hi_strict=True)
    RandShim.last = v
    return v


def _c15_network(kind):
    S = SeededDist
    R = ciw.routing
    if kind == "mm1":
        return ciw.create_network(arrival_distributions=[S("a", True)], service_distributions=[S("s")], number_of_servers=[1]), {}
    if kind == "cycle":
        return ciw.create_network(arrival_distributions=[S("a", True), None, None], service_distributions=[S("s1"), S("s2"), S("s3")],
                                  number_of_servers=[1, 1, 1],
                                  routing=R.NetworkRouting(routers=[R.Cycle(cycle=[2, 3, -1]), R.Leave(), R.Leave()])), {}
    if kind == "sequential":
        seq = E.EX.path_state.setdefault("c15_seq", None) or [E.EX.fresh_real("q", lo=0) for _ in range(3)]
        E.EX.path_state["c15_seq"] = seq
        return ciw.create_network(arrival_distributions=[S("a", True)], service_distributions=[ciw.dists.Sequential(seq)], number_of_servers=[1]), {}
    if kind == "stateful":
        return ciw.create_network(arrival_distributions=[S("a", True)], service_distributions=[StatefulDist("s")], number_of_servers=[2]), {}
    if kind == "prob":
        return ciw.create_network(arrival_distributions=[S("a", True), None], service_distributions=[S("s1"), S("s2")], number_of_servers=[1, 1],
                                  routing=[[0.0, 0.5], [0.0, 0.0]]), dict(tracker=lambda: ciw.trackers.NodePopulation())
    if kind == "schedule":
        return ciw.create_network(arrival_distributions=[S("a", True)], service_distributions=[S("s")],
                                  number_of_servers=[ciw.Schedule(numbers_of_servers=[1, 0, 2], shift_end_dates=[2, 3, 5], preemption="resample")]), {}
    if kind == "slotted":
        return ciw.create_network(arrival_distributions=[S("a", True)], service_distributions=[S("s")],
                                  number_of_servers=[ciw.Slotted(slots=[1.5, 2.5, 4.0], slot_sizes=[1, 2, 1])]), {}
    if kind == "schedule_offset":
        return ciw.create_network(arrival_distributions=[S("a", True)], service_distributions=[S("s")],
                                  number_of_servers=[ciw.Schedule(numbers_of_servers=[1, 0, 2], shift_end_dates=[2, 3, 5], preemption=False, offset=0.5)]), {}
    if kind == "slotted_offset":
        return ciw.create_network(arrival_distributions=[S("a", True)], service_distributions=[S("s")],
                                  number_of_servers=[ciw.Slotted(slots=[1.5, 2.5, 4.0], slot_sizes=[1, 2, 1], offset=0.25)]), {}
    if kind == "classchange":
        M = {"A": {"A": 0.5, "B": 0.5}, "B": {"A": 0.0, "B": 1.0}}
        return ciw.create_network(arrival_distributions={"A": [S("aA", True)], "B": [S("aB", True)]}, service_distributions={"A": [S("sA")], "B": [S("sB")]},
                                  number_of_servers=[1], class_change_matrices=[M], priority_classes={"A": 0, "B": 1}), dict(tracker=lambda: ciw.trackers.NodeClassMatrix())
    if kind == "baulk":
        return ciw.create_network(arrival_distributions=[S("a", True)], service_distributions=[S("s")], number_of_servers=[1],
                                  baulking_functions=[lambda n, Q=None, next_ind=None, next_node=None: 0.5]), {}
    if kind == "process":
        def route(ind, simulation):
            return [1, 2] if ciw.random_choice([0, 1]) == 0 else [1]
        return ciw.create_network(arrival_distributions=[S("a", True), None], service_distributions=[S("s1"), S("s2")], number_of_servers=[1, 1],
                                  routing=R.ProcessBased(route)), {}
    if kind == "flex_jsq":
        def route2(ind, simulation):
            return [[1], [2, 3]]
        return ciw.create_network(arrival_distributions=[S("a", True), None, None], service_distributions=[S("s1"), S("s2"), S("s3")],
                                  number_of_servers=[2, 1, 1], routing=R.FlexibleProcessBased(route2, "any", "jsq"),
                                  batching_distributions=[H.FixedSeq([3], 1), ciw.dists.Deterministic(1), ciw.dists.Deterministic(1)]), \
            dict(tracker=lambda: ciw.trackers.NodePopulation())
    if kind == "siro":
        return ciw.create_network(arrival_distributions=[S("a", True)], service_distributions=[S("s")], number_of_servers=[1],
                                  service_disciplines=[ciw.disciplines.SIRO], batching_distributions=[H.FixedSeq([3], 1)]), {}
    if kind == "jsq":
        return ciw.create_network(arrival_distributions=[S("a", True), None, None], service_distributions=[S("s1"), S("s2"), S("s3")],
                                  number_of_servers=[2, 1, 1],
                                  routing=R.NetworkRouting(routers=[R.JoinShortestQueue(destinations=[2, 3]), R.Leave(), R.Leave()])), \
            dict(tracker=lambda: ciw.trackers.SystemPopulation())
    raise ValueError(kind)


def reproducibility(task):
    kind = task["cfg"][1]["kind"]
    between = task["cfg"][1].get("between", False)
    K = task["K"]

    def one(ex, net, kw, T, tag):
        kw2 = {k: v() for k, v in kw.items()}
        Q = SoftSim(net, monitors=[], K=K, node_class=H.MonNode, **kw2)
        done = _run_soft(Q, T)
        ex.path_events.append("|" + tag)
        return Q, done

    def fn(ex):
        old_random = (ciw.auxiliary.random, ciw.node.random, ciw.arrival_node.random)

        class SeedShim(RandShim):
            @staticmethod
            def random():
                return _seeded_random()

            @staticmethod
            def seed(z):
                StreamState.pos = 0

        ciw.auxiliary.random = SeedShim
        ciw.node.random = SeedShim.random
        ciw.arrival_node.random = SeedShim.random
        try:
            T = ex.fresh_real("T", lo=0, lo_strict=True)
            ciw.seed(7)
            net1, kw = _c15_network(kind)
            Q1, d1 = one(ex, net1, kw, T, "run1")
            if between:
                # an unrelated simulation in the same process, drawing from the same generator
                netx, kwx = _c15_network("mm1")
                one(ex, netx, kwx, T, "unrelated")
            ciw.seed(7)
            net2, _ = _c15_network(kind)
            Q2, d2 = one(ex, net2, kw, T, "run2_fresh_network")
            ciw.seed(7)
            Q3, d3 = one(ex, net1, kw, T, "run3_same_network")
        except Exception as e:
            tb = traceback.extract_tb(e.__traceback__)
            where = " <- ".join("%s:%d" % (os.path.basename(f.filename), f.lineno) for f in tb[-3:])
            raise E.Crash("%s: %s at %s" % (type(e).__name__, e, where))
        finally:
            ciw.auxiliary.random, ciw.node.random, ciw.arrival_node.random = old_random
        ex.seen("c15_triples")
        for (Q, d, what) in ((Q2, d2, "fresh network after the same seed"), (Q3, d3, "same Network object re-used after the same seed")):
            mon = "C15.fresh" if Q is Q2 else "C15.reuse"
            _ck(d == d1 and Q.tr.event_no == Q1.tr.event_no, mon + "_events", lambda: "%s: %d events vs %d" % (what, Q.tr.event_no, Q1.tr.event_no))
            compare_records(_records(Q1), _records(Q), mon + "_records", what)
            _ck(_same_value(Q1.current_time, Q.current_time), mon + "_clock", lambda: "%s: final clock %s vs %s" % (what, Q1.current_time, Q.current_time))
            h1, h2 = Q1.statetracker.history, Q.statetracker.history
            _ck(len(h1) == len(h2), mon + "_history_length")
            for x, y in zip(h1, h2):
                _ck(x[1] == y[1] and _same_value(x[0], y[0]), mon + "_history", lambda: "%s: tracker history %s vs %s" % (what, x, y))
        if _records(Q1):
            ex.seen("c15_records_compared")

    return fn


# ==============================================================================================
# C16 pause / resume


def pause_resume(task):
    name, params = task["cfg"][1]["base"], task["cfg"][1].get("params", {})
    splits = task["cfg"][1].get("splits", 1)
    K = task["K"]

    def fn(ex):
        T = ex.fresh_real("T", lo=0, lo_strict=True)
        cuts = []
        for k in range(splits):
            lo = cuts[-1] if cuts else 0
            t = ex.fresh_real("T%d" % (k + 1), lo=0, lo_strict=True)
            if cuts:
                ex.assume(LT(cuts[-1], t))
            ex.assume(LT(t, T))
            cuts.append(t)
        snap = dict(ex.counter)
        try:
            cfgA = C.REG[name](**params)
            QA = SoftSim(cfgA.net, monitors=[], K=K, node_class=cfgA.node_class, **cfgA.sim_kw)
            doneA = _run_soft(QA, T)
            ex.path_events.append("|A")
            # same symbols for the second run: per-stream draw counters restart
            for k in list(ex.counter):
                if k not in snap:
                    ex.counter[k] = 0
                else:
                    ex.counter[k] = snap[k]
            cfgB = C.REG[name](**params)
            QB = SoftSim(cfgB.net, monitors=[], K=K, node_class=cfgB.node_class, **cfgB.sim_kw)
            doneB = True
            for t in cuts + [T]:
                QB.hit_fuel = False
                try:
                    QB.simulate_until_max_time(t)
                except SoftStop:
                    doneB = False
                    break
            ex.path_events.append("|B")
        except Exception as e:
            tb = traceback.extract_tb(e.__traceback__)
            where = " <- ".join("%s:%d" % (os.path.basename(f.filename), f.lineno) for f in tb[-3:])
            raise E.Crash("%s: %s at %s" % (type(e).__name__, e, where))
        if not doneA:
            raise E.Abort()
        ex.seen("c16_pairs")
        _ck(doneB, "C16.split_run_needs_more_events", lambda: "the split run executed more than %d events, the single run %d" % (K, QA.tr.event_no))
        _ck(QA.tr.event_no == QB.tr.event_no, "C16.event_count", lambda: "single run: %d events, split run: %d" % (QA.tr.event_no, QB.tr.event_no))
        compare_records(_records(QA), _records(QB), "C16.records", "split at %s vs single run to %s" % (cuts, T))
        _ck(_same_value(QA.current_time, QB.current_time), "C16.final_clock", lambda: "final clock %s vs %s" % (QA.current_time, QB.current_time))
        if _records(QA):
            ex.seen("c16_records_compared")
        for nA, nB in zip(QA.transitive_nodes, QB.transitive_nodes):
            if not H.finite(nA):
                continue
            # busy time of the servers still present
            for sA, sB in zip(nA.servers, nB.servers):
                _ck(sA.id_number == sB.id_number, "C16.servers")
                _ck(_same_value(sA.busy_time, sB.busy_time), "C16.server_busy_time",
                    lambda: "node %s server %s: busy time %s in the single run, %s in the split run" % (nA.id_number, sA.id_number, sA.busy_time, sB.busy_time))
                _ck(_same_value(sA.total_time, sB.total_time), "C16.server_total_time")
            uA, uB = nA.server_utilisation, nB.server_utilisation
            if isinstance(uA, SymRatio) and isinstance(uB, SymRatio):
                _ck(RatioEQ(SymReal(uA.num), SymReal(uA.den), SymReal(uB.num), SymReal(uB.den)), "C16.utilisation",
                    lambda: "node %s: utilisation %s/%s (single run) vs %s/%s (split run)" % (nA.id_number, SymReal(uA.num), SymReal(uA.den), SymReal(uB.num), SymReal(uB.den)))
            elif isinstance(uA, SymRatio) or isinstance(uB, SymRatio):
                _ck(False, "C16.utilisation", lambda: "node %s: utilisation %s (single) vs %s (split)" % (nA.id_number, uA, uB))
            elif isnum(uA) and isnum(uB):
                _ck(RatioEQ(uA, 1.0, uB, 1.0), "C16.utilisation", lambda: "node %s: utilisation %s (single run) vs %s (split run)" % (nA.id_number, uA, uB))
            else:
                _ck(uA == uB, "C16.utilisation", lambda: "node %s: utilisation %s (single) vs %s (split)" % (nA.id_number, uA, uB))
            ex.seen("c16_utilisation_compared")

    return fn


# ==============================================================================================
# C19 relational: unlimited PS empties at the same instants as FIFO c=1 with the same inputs


class EmptyLog(H.Monitor):
    prop = "C19"

    def at_init(self):
        self.empties = []
        self.served = 0

    def post_event(self, node, nxt, ctx):
        Q = self.Q
        n = Q.transitive_nodes[0]
        if node is n and not here(n):
            self.empties.append(Q.current_time)


class ByCustomer(ciw.dists.Distribution):
    """requirement of customer id k is the symbol req_k in both runs"""

    def sample(self, t=None, ind=None):
        nm = "req%d" % ind.id_number
        E.EX.counter[nm] = 0
        return E.EX.fresh_real(nm, lo=0)


def ps_vs_fifo(task):
    K = task["K"]
    first = task["cfg"][1].get("first")
    thr = task["cfg"][1].get("threshold", 1)
    burst = task["cfg"][1].get("burst")

    def fn(ex):
        T = ex.fresh_real("T", lo=0, lo_strict=True)
        snap = dict(ex.counter)
        try:
            def build(ps):
                return ciw.create_network(arrival_distributions=[SymDist("a", lo=0, lo_strict=True, limit=burst)], service_distributions=[ByCustomer()],
                                          number_of_servers=[INF if ps else 1], ps_thresholds=[thr],
                                          batching_distributions=[C.batches(first)])
            mA = EmptyLog()
            QA = SoftSim(build(True), monitors=[mA], K=K, node_class=H.MonPSNode)
            dA = _run_soft(QA, T)
            ex.path_events.append("|PS")
            for k in list(ex.counter):
                ex.counter[k] = snap.get(k, 0)
            mB = EmptyLog()
            QB = SoftSim(build(False), monitors=[mB], K=K, node_class=H.MonNode)
            dB = _run_soft(QB, T)
            ex.path_events.append("|FIFO")
        except Exception as e:
            tb = traceback.extract_tb(e.__traceback__)
            where = " <- ".join("%s:%d" % (os.path.basename(f.filename), f.lineno) for f in tb[-3:])
            raise E.Crash("%s: %s at %s" % (type(e).__name__, e, where))
        if not (dA and dB):
            raise E.Abort()
        ex.seen("c19_rel_pairs")
        _ck(len(mA.empties) == len(mB.empties), "C19.rel_empty_count",
            lambda: "PS node emptied %d times, FIFO node %d times before %s" % (len(mA.empties), len(mB.empties), T))
        for k, (x, y) in enumerate(zip(mA.empties, mB.empties)):
            _ck(EQ(x, y), "C19.rel_empty_instant", lambda: "emptying %d: PS at %s, FIFO at %s" % (k, x, y))
            ex.seen("c19_rel_empties")

    return fn
