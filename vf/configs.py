"""Configuration family (DESIGN.md section 4).  Every builder returns a fresh Network per path
(Schedule objects and routers live on the Network and are stateful) plus the declarative flags the
monitors use as their specification."""
import math

from . import engine as E
from .harness import ciw, SymDist, ChoiceBatch, FixedSeq, MonNode, MonPSNode, here, RandShim

INF = float("inf")
D = SymDist
R = ciw.routing


class Cfg:
    def __init__(self, net, flags=None, sim_kw=None, node_class=None, mode="time"):
        self.net = net
        self.flags = flags or {}
        self.sim_kw = sim_kw or {}
        self.node_class = node_class or MonNode
        self.mode = mode


def arr(name, pos=True, burst=None, lo=0):
    """inter-arrival stream: strictly positive samples unless pos=False (row Z0); burst=n -> n samples then inf"""
    return D(name, lo=lo, lo_strict=pos, limit=burst)


def batches(first=None, sizes=None, label="batch"):
    if sizes:
        return ChoiceBatch(sizes, label=label, first=first)
    if first is not None:
        return FixedSeq([first], 1)
    return ciw.dists.Deterministic(1)


REG = {}


def config(fn):
    REG[fn.__name__] = fn
    return fn


def disc(name):
    return {None: ciw.disciplines.FIFO, "FIFO": ciw.disciplines.FIFO, "LIFO": ciw.disciplines.LIFO, "SIRO": ciw.disciplines.SIRO}[name]


def cap(x):
    return INF if x in ("inf", None) else x


# ---- single node -----------------------------------------------------------------------------
@config
def Q1(c=1, discipline=None, first=None, burst=None, pos=True, cap_=None, syscap=None, batch=None):
    c = cap(c) if c == "inf" else c
    kw = {}
    if cap_ is not None:
        kw["queue_capacities"] = [cap(cap_)]
    if syscap is not None:
        kw["system_capacity"] = cap(syscap)
    net = ciw.create_network(
        arrival_distributions=[arr("a", pos, burst)], service_distributions=[D("s")], number_of_servers=[c],
        service_disciplines=[disc(discipline)], batching_distributions=[batches(first, batch)], **kw)
    return Cfg(net)


@config
def P1(c=1, pre=False, classes=2, discipline=None, first=None, burst=None, to=None, pos=True):
    """priorities; pre in False/resume/restart/resample/reroute(with second node)"""
    names = ["A", "B", "C"][:classes]
    two = pre == "reroute"
    nn = 2 if two else 1
    ad = {k: [arr("a" + k, pos, burst)] + [None] * (nn - 1) for k in names}
    sd = {k: [D("s" + k)] + [D("t" + k)] * (nn - 1) for k in names}
    bd = {k: [batches(first if k == names[-1] else None)] + [ciw.dists.Deterministic(1)] * (nn - 1) for k in names}
    pc = {k: i for i, k in enumerate(names)}
    kw = {}
    flags = {}
    if two:
        mk = lambda: R.NetworkRouting(routers=[R.Direct(to=2) if to == 2 else R.Leave(), R.Leave()])
        kw["routing"] = {k: mk() for k in names}
        flags["routing"] = {k: ("nodes", [("direct", 2) if to == 2 else ("leave",), ("leave",)]) for k in names}
    net = ciw.create_network(arrival_distributions=ad, service_distributions=sd, number_of_servers=[c] + [1] * (nn - 1),
                             priority_classes=(pc, [pre] + [False] * (nn - 1)),
                             service_disciplines=[disc(discipline)] * nn, batching_distributions=bd, **kw)
    return Cfg(net, flags)


# ---- tandem / loops (blocking) ------------------------------------------------------------------
@config
def T2(c1=1, c2=1, caps=("inf", 0), first=None, burst=None, a2=False, prio=False, p12=1.0, shared=False, pos=True):
    ad = [arr("a1", pos, burst), arr("a2", pos, burst) if a2 else None]
    if shared:
        # the same distribution *objects* are listed for both nodes: every node must still get its own stream
        sa, ss, sb = arr("a", True, burst), D("s"), ChoiceBatch([1, 2], label="batch")
        net = ciw.create_network(arrival_distributions=[sa, sa], service_distributions=[ss, ss], number_of_servers=[c1, c2],
                                 queue_capacities=[cap(caps[0]), cap(caps[1])], routing=[[0.0, p12], [0.0, 0.0]],
                                 batching_distributions=[sb, sb])
        return Cfg(net, {"routing": {"Customer": ("nodes", [("prob", [1, 2], [0.0, p12]), ("prob", [1, 2], [0.0, 0.0])])}})
    if prio:
        net = ciw.create_network(
            arrival_distributions={"A": [arr("aA", True, burst), None], "B": [arr("aB", True, burst), None]},
            service_distributions={"A": [D("sA"), D("tA")], "B": [D("sB"), D("tB")]},
            number_of_servers=[c1, c2], queue_capacities=[cap(caps[0]), cap(caps[1])], priority_classes={"A": 0, "B": 1},
            routing={"A": [[0.0, p12], [0.0, 0.0]], "B": [[0.0, p12], [0.0, 0.0]]},
            batching_distributions={"A": [batches(None), batches(None)], "B": [batches(first), batches(None)]})
        spec = ("nodes", [("prob", [1, 2], [0.0, p12]), ("prob", [1, 2], [0.0, 0.0])])
        return Cfg(net, {"routing": {"A": spec, "B": spec}})
    net = ciw.create_network(
        arrival_distributions=ad, service_distributions=[D("s1"), D("s2")], number_of_servers=[c1, c2],
        queue_capacities=[cap(caps[0]), cap(caps[1])], routing=[[0.0, p12], [0.0, 0.0]],
        batching_distributions=[batches(first), batches(None)])
    spec = ("nodes", [("prob", [1, 2], [0.0, p12]), ("prob", [1, 2], [0.0, 0.0])])
    return Cfg(net, {"routing": {"Customer": spec}})


@config
def L2(c=(1, 1), caps=(1, 1), p=1.0, first=None, burst=None, a2=True, classes=1):
    firsts = first if isinstance(first, (list, tuple)) else (first, first)
    if classes == 2:
        net = ciw.create_network(
            arrival_distributions={"A": [arr("aA1", True, burst), None], "B": [None, arr("aB2", True, burst)]},
            service_distributions={"A": [D("sA1"), D("sA2")], "B": [D("sB1"), D("sB2")]},
            number_of_servers=list(c), queue_capacities=[cap(x) for x in caps],
            routing={"A": [[0.0, p], [p, 0.0]], "B": [[0.0, p], [p, 0.0]]},
            batching_distributions={"A": [batches(firsts[0]), batches(None)], "B": [batches(None), batches(firsts[1])]})
        spec = ("nodes", [("prob", [1, 2], [0.0, p]), ("prob", [1, 2], [p, 0.0])])
        return Cfg(net, {"routing": {"A": spec, "B": spec}})
    net = ciw.create_network(
        arrival_distributions=[arr("a1", True, burst), arr("a2", True, burst) if a2 else None],
        service_distributions=[D("s1"), D("s2")], number_of_servers=list(c), queue_capacities=[cap(x) for x in caps],
        routing=[[0.0, p], [p, 0.0]], batching_distributions=[batches(firsts[0]), batches(firsts[1])])
    spec = ("nodes", [("prob", [1, 2], [0.0, p]), ("prob", [1, 2], [p, 0.0])])
    return Cfg(net, {"routing": {"Customer": spec}})


@config
def S1(c=1, cap_=0, p=0.5, first=None, burst=None, pos=True):
    net = ciw.create_network(arrival_distributions=[arr("a", pos, burst)], service_distributions=[D("s")], number_of_servers=[c],
                             queue_capacities=[cap(cap_)], routing=[[p]], batching_distributions=[batches(first)])
    return Cfg(net, {"routing": {"Customer": ("nodes", [("prob", [1], [p])])}})


@config
def L3(c=1, cap_=0, streams=1, first=None, burst=None):
    ad = [arr("a1", True, burst), arr("a2", True, burst) if streams >= 2 else None, arr("a3", True, burst) if streams >= 3 else None]
    net = ciw.create_network(arrival_distributions=ad, service_distributions=[D("s1"), D("s2"), D("s3")],
                             number_of_servers=[c, c, c], queue_capacities=[cap(cap_)] * 3,
                             routing=[[0.0, 1.0, 0.0], [0.0, 0.0, 1.0], [1.0, 0.0, 0.0]],
                             batching_distributions=[batches(first), batches(None), batches(None)])
    spec = ("nodes", [("prob", [1, 2, 3], [0.0, 1.0, 0.0]), ("prob", [1, 2, 3], [0.0, 0.0, 1.0]), ("prob", [1, 2, 3], [1.0, 0.0, 0.0])])
    return Cfg(net, {"routing": {"Customer": spec}})


# ---- schedules / slotted --------------------------------------------------------------------------
SC_BOUNDS, SC_VALUES = [2, 3, 5], [1, 0, 2]


@config
def SC(pre=False, offset=0.0, first=None, burst=None, blocked=False, prio=False, values=None, bounds=None, symoff=False, discipline=None, c2=1):
    values = values or SC_VALUES
    bounds = bounds or SC_BOUNDS
    off = offset
    if symoff:
        off = E.EX.fresh_real("offset", lo=0, hi=1)
    mk = lambda: ciw.Schedule(numbers_of_servers=list(values), shift_end_dates=list(bounds), preemption=pre, offset=off)
    tt = {1: dict(kind="schedule", bounds=list(bounds), values=list(values), offset=off, preemption=pre)}
    flags = {"timetable": tt}
    if pre is not False:
        flags["preemptive_schedule"] = True
    if blocked:
        kw = {}
        if pre == "reroute":
            kw["routing"] = R.NetworkRouting(routers=[R.Direct(to=2), R.Leave()])
        else:
            kw["routing"] = [[0.0, 1.0], [0.0, 0.0]]
        net = ciw.create_network(arrival_distributions=[arr("a", True, burst), None], service_distributions=[D("s1"), D("s2")],
                                 number_of_servers=[mk(), c2], queue_capacities=[INF, 0],
                                 batching_distributions=[batches(first), batches(None)], **kw)
        return Cfg(net, flags)
    if prio:
        net = ciw.create_network(arrival_distributions={"A": [arr("aA", True, burst)], "B": [arr("aB", True, burst)]},
                                 service_distributions={"A": [D("sA")], "B": [D("sB")]}, number_of_servers=[mk()],
                                 priority_classes={"A": 0, "B": 1},
                                 batching_distributions={"A": [batches(None)], "B": [batches(first)]})
        return Cfg(net, flags)
    kw = {}
    if pre == "reroute":
        net = ciw.create_network(arrival_distributions=[arr("a", True, burst), None], service_distributions=[D("s1"), D("s2")],
                                 number_of_servers=[mk(), 1], routing=R.NetworkRouting(routers=[R.Leave(), R.Leave()]),
                                 batching_distributions=[batches(first), batches(None)])
        flags["routing"] = {"Customer": ("nodes", [("leave",), ("leave",)])}
        return Cfg(net, flags)
    net = ciw.create_network(arrival_distributions=[arr("a", True, burst)], service_distributions=[D("s")], number_of_servers=[mk()],
                             batching_distributions=[batches(first)], service_disciplines=[disc(discipline)])
    return Cfg(net, flags)


SL_SLOTS, SL_SIZES = [1.5, 2.5, 4.0], [1, 2, 1]


@config
def SL(capacitated=False, pre=False, offset=0.0, first=None, burst=None, pos=True, slots=None, sizes=None, reneging=False):
    slots = slots or SL_SLOTS
    sizes = sizes or SL_SIZES
    mk = lambda: ciw.Slotted(slots=list(slots), slot_sizes=list(sizes), capacitated=capacitated, preemption=pre, offset=offset)
    kw = {}
    if reneging:
        kw["reneging_time_distributions"] = [D("p")]
    net = ciw.create_network(arrival_distributions=[arr("a", pos, burst)], service_distributions=[D("s")], number_of_servers=[mk()],
                             batching_distributions=[batches(first)], **kw)
    tt = {1: dict(kind="slotted", slots=list(slots), sizes=list(sizes), offset=offset, capacitated=capacitated, preemption=pre)}
    return Cfg(net, {"timetable": tt})


# ---- reneging / baulking ---------------------------------------------------------------------------
class Jockey(R.Leave):
    """jockeying router; alternate=True: the answer depends on how often it was asked (like a random tie-break), so
    asking twice for one renege is observable"""

    def __init__(self, to, alternate=False):
        self.to = to
        self.alternate = alternate
        self.calls = 0

    def initialise(self, simulation, node):
        super().initialise(simulation, node)
        self.calls = 0

    def next_node_for_jockeying(self, ind):
        self.calls += 1
        if self.alternate and self.calls % 2 == 0:
            return self.simulation.nodes[-1]
        return self.simulation.nodes[self.to]


@config
def RN(c=1, jockey=False, prio=False, pre=False, first=None, burst=None, sched=False, blockedinto=False, syscap=None, cap_=None, cap2=1, first1=None, pos=True):
    if blockedinto:
        # node1 -> node2 (c=1, cap 1, reneging at node 2): a renege at node 2 frees a place for a customer blocked at node 1
        net = ciw.create_network(arrival_distributions=[arr("a1", True, burst), arr("a2", True, burst)],
                                 service_distributions=[D("s1"), D("s2")], number_of_servers=[c, 1], queue_capacities=[INF, cap2],
                                 routing=[[0.0, 1.0], [0.0, 0.0]], reneging_time_distributions=[None, D("p")],
                                 batching_distributions=[batches(first1), batches(first)])
        return Cfg(net, {"routing": {"Customer": ("nodes", [("prob", [1, 2], [0.0, 1.0]), ("prob", [1, 2], [0.0, 0.0])])}})
    if jockey:
        net = ciw.create_network(arrival_distributions=[arr("a", True, burst), None], service_distributions=[D("s"), D("s2")],
                                 number_of_servers=[c, 1], routing=R.NetworkRouting(routers=[Jockey(2, alternate=(jockey == "alt")), R.Leave()]),
                                 reneging_time_distributions=[D("p"), None], batching_distributions=[batches(first), batches(None)])
        return Cfg(net, {"routing": {"Customer": ("nodes", [("leave",), ("leave",)])}})
    if prio:
        net = ciw.create_network(arrival_distributions={"A": [arr("aA", True, burst)], "B": [arr("aB", True, burst)]},
                                 service_distributions={"A": [D("sA")], "B": [D("sB")]}, number_of_servers=[c],
                                 priority_classes=({"A": 0, "B": 1}, [pre]),
                                 reneging_time_distributions={"A": [D("pA")], "B": [D("pB")]},
                                 batching_distributions={"A": [batches(None)], "B": [batches(first)]})
        return Cfg(net, {"preempted_may_outwait": False})
    ns = c
    flags = {}
    if sched:
        ns = ciw.Schedule(numbers_of_servers=list(SC_VALUES), shift_end_dates=list(SC_BOUNDS), preemption=False)
        flags["timetable"] = {1: dict(kind="schedule", bounds=list(SC_BOUNDS), values=list(SC_VALUES), offset=0.0, preemption=False)}
    kw = {}
    if syscap is not None:
        kw["system_capacity"] = syscap
    if cap_ is not None:
        kw["queue_capacities"] = [cap_]
    net = ciw.create_network(arrival_distributions=[arr("a", pos, burst)], service_distributions=[D("s")], number_of_servers=[ns],
                             reneging_time_distributions=[D("p")], batching_distributions=[batches(first)], **kw)
    return Cfg(net, flags)


class BaulkFn:
    """baulking function supplied by the harness: logs its argument and the true population"""

    def __init__(self, kind):
        self.kind = kind

    def __call__(self, n, Q=None, next_ind=None, next_node=None):
        if self.kind == "zero":
            q = 0.0
        elif self.kind == "one":
            q = 1.0
        elif self.kind == "sym":
            q = E.EX.fresh_real("q", lo=0, hi=1)
        elif self.kind == "full_at_2":
            q = 1.0 if n >= 2 else 0.0
        else:
            q = 0.5
        Q.tr.baulk_calls.append(dict(node=next_node.id_number, n=n, true_n=len(here(next_node)), q=q, u=RandShim.last,
                                     ind=next_ind.id_number, event=Q.tr.event_no))
        return q


@config
def BK(kind="sym", c=1, first=None, burst=None, cap_=None, pos=True):
    kw = {}
    if cap_ is not None:
        kw["queue_capacities"] = [cap_]
    net = ciw.create_network(arrival_distributions=[arr("a", pos, burst)], service_distributions=[D("s")], number_of_servers=[c],
                             baulking_functions=[BaulkFn(kind)], batching_distributions=[batches(first)], **kw)
    return Cfg(net)


# ---- class changes ----------------------------------------------------------------------------------
@config
def CCa(first=None, burst=None, p=0.5, nodes=1, prio=False, blocking=False, order="sorted"):
    """class change after service; zero entries in the matrix; order='rev': rows and keys written in reverse
    alphabetical order (the specification is the same mapping)"""
    M = {"A": {"A": 0.0, "B": 1.0}, "B": {"A": 0.0, "B": 1.0}}
    M2 = {"A": {"A": 0.5, "B": 0.5}, "B": {"A": 0.0, "B": 1.0}}
    if order == "rev":
        M = {"B": {"B": 1.0, "A": 0.0}, "A": {"B": 1.0, "A": 0.0}}
        M2 = {"B": {"B": 1.0, "A": 0.0}, "A": {"B": 0.5, "A": 0.5}}
    pc = {"A": 0, "B": 1} if prio else {"A": 0, "B": 0}
    if nodes == 1:
        net = ciw.create_network(arrival_distributions={"A": [arr("aA", True, burst)], "B": [None]},
                                 service_distributions={"A": [D("sA")], "B": [D("sB")]}, number_of_servers=[1],
                                 routing={"A": [[p]], "B": [[p]]}, class_change_matrices=[M2], priority_classes=pc,
                                 batching_distributions={"A": [batches(first)], "B": [batches(None)]})
        spec = ("nodes", [("prob", [1], [p])])
        return Cfg(net, {"routing": {"A": spec, "B": spec}, "class_change": [M2]})
    caps = [INF, 0] if blocking else [INF, INF]
    net = ciw.create_network(arrival_distributions={"A": [arr("aA", True, burst), None], "B": [None, None]},
                             service_distributions={"A": [D("sA1"), D("sA2")], "B": [D("sB1"), D("sB2")]}, number_of_servers=[1, 1],
                             queue_capacities=caps, routing={"A": [[0.0, 1.0], [0.0, 0.0]], "B": [[0.0, 1.0], [0.0, 0.0]]},
                             class_change_matrices=[M2, M], priority_classes=pc,
                             batching_distributions={"A": [batches(first), batches(None)], "B": [batches(None), batches(None)]})
    spec = ("nodes", [("prob", [1, 2], [0.0, 1.0]), ("prob", [1, 2], [0.0, 0.0])])
    return Cfg(net, {"routing": {"A": spec, "B": spec}, "class_change": [M2, M]})


@config
def CCw(nodes=1, prio=False, pre=False, first=None, burst=None, c=1):
    """class change while waiting"""
    pc = {"A": 0, "B": 1} if prio else {"A": 0, "B": 0}
    flags = {"priority_changes_while_waiting": prio, "class_change_waiting": True}
    ccd = {"A": {"B": D("cAB")}, "B": {"A": D("cBA")}}
    if nodes == 1:
        net = ciw.create_network(arrival_distributions={"A": [arr("aA", True, burst)], "B": [arr("aB", True, burst)]},
                                 service_distributions={"A": [D("sA")], "B": [D("sB")]}, number_of_servers=[c],
                                 class_change_time_distributions=ccd, priority_classes=(pc, [pre]),
                                 batching_distributions={"A": [batches(None)], "B": [batches(first)]})
        return Cfg(net, flags)
    net = ciw.create_network(arrival_distributions={"A": [arr("aA", True, burst), None], "B": [arr("aB", True, burst), None]},
                             service_distributions={"A": [D("sA"), D("tA")], "B": [D("sB"), D("tB")]}, number_of_servers=[c, 1],
                             routing={"A": [[0.0, 1.0], [0.0, 0.0]], "B": [[0.0, 1.0], [0.0, 0.0]]},
                             class_change_time_distributions=ccd, priority_classes=(pc, [pre, False]),
                             batching_distributions={"A": [batches(None)] * 2, "B": [batches(first), batches(None)]})
    return Cfg(net, flags)


# ---- routing ----------------------------------------------------------------------------------------
class RouteFn:
    """process-based route function supplied by the harness: picks a route (concrete per path) and logs it;
    shared=True: every customer is handed the *same* list object (valid for rule 'any', which does not consume it)"""

    def __init__(self, routes, log, shared=False):
        import copy as _copy
        self.routes, self.log, self.shared = routes, log, shared
        self.original = _copy.deepcopy(routes)

    def __call__(self, ind, simulation):
        k = 0 if len(self.routes) == 1 else E.EX.choose(len(self.routes), "route")
        if self.shared:
            self.log[ind.id_number] = [list(x) if isinstance(x, (list, tuple)) else x for x in self.original[k]]
            return self.routes[k]
        r = self.routes[k]
        self.log[ind.id_number] = [list(x) if isinstance(x, (list, tuple)) else x for x in r]
        return [list(x) if isinstance(x, (list, tuple)) else x for x in r]


@config
def RT(router="prob", tie="random", first=None, burst=None, c=(1, 1, 1), rule="any", choice="random", a23=False, shared=False):
    """3 nodes; node 1 routes with `router`; nodes 2 and 3 leave"""
    ad = [arr("a1", True, burst), arr("a2", True, burst) if a23 else None, None]
    sd = [D("s1"), D("s2"), D("s3")]
    bd = [batches(first), batches(None), batches(None)]
    flags = {}
    if router in ("process", "flex"):
        log = {}
        flags["route_log"] = log
        if router == "process":
            rt = R.ProcessBased(RouteFn([[1, 2, 3], [1, 3], [1, 1, 2]], log))
            flags["routing"] = {"Customer": ("process",)}
        else:
            rt = R.FlexibleProcessBased(RouteFn([[[1], [2, 3]], [[1], [2, 3], [2]]] if not shared else [[[1], [2, 3], [3]]], log, shared=shared), rule, choice)
            flags["routing"] = {"Customer": ("flex", rule, choice)}
        net = ciw.create_network(arrival_distributions=ad, service_distributions=sd, number_of_servers=list(c), routing=rt,
                                 batching_distributions=bd)
        return Cfg(net, flags)
    if router == "prob":
        r1, s1 = R.Probabilistic(destinations=[1, 2, 3], probs=[0.0, 0.5, 0.0]), ("prob", [1, 2, 3], [0.0, 0.5, 0.0])
    elif router == "prob0":
        r1, s1 = R.Probabilistic(destinations=[2, 3], probs=[0.0, 0.25]), ("prob", [2, 3], [0.0, 0.25])
    elif router == "direct":
        r1, s1 = R.Direct(to=3), ("direct", 3)
    elif router == "leave":
        r1, s1 = R.Leave(), ("leave",)
    elif router == "cycle":
        r1, s1 = R.Cycle(cycle=[2, 3, 3, -1]), ("cycle", [2, 3, 3, -1])
    elif router == "jsq":
        r1, s1 = R.JoinShortestQueue(destinations=[2, 3], tie_break=tie), ("jsq", [2, 3], tie)
    elif router == "lb":
        r1, s1 = R.LoadBalancing(destinations=[2, 3], tie_break=tie), ("lb", [2, 3], tie)
    else:
        raise ValueError(router)
    rt = R.NetworkRouting(routers=[r1, R.Leave(), R.Leave()])
    flags["routing"] = {"Customer": ("nodes", [s1, ("leave",), ("leave",)])}
    net = ciw.create_network(arrival_distributions=ad, service_distributions=sd, number_of_servers=list(c), routing=rt,
                             batching_distributions=bd)
    return Cfg(net, flags)


@config
def RTM(first=None, burst=None):
    """transition matrix with zero entries, 2 classes with different matrices"""
    MA = [[0.0, 0.5, 0.0], [0.0, 0.0, 1.0], [0.0, 0.0, 0.0]]
    MB = [[0.0, 0.0, 0.5], [0.5, 0.0, 0.0], [0.0, 0.0, 0.0]]
    net = ciw.create_network(arrival_distributions={"A": [arr("aA", True, burst), None, None], "B": [arr("aB", True, burst), None, None]},
                             service_distributions={"A": [D("sA1"), D("sA2"), D("sA3")], "B": [D("sB1"), D("sB2"), D("sB3")]},
                             number_of_servers=[1, 1, 1], routing={"A": MA, "B": MB},
                             batching_distributions={"A": [batches(first), batches(None), batches(None)], "B": [batches(None)] * 3})
    sp = lambda M: ("nodes", [("prob", [1, 2, 3], row) for row in M])
    return Cfg(net, {"routing": {"A": sp(MA), "B": sp(MB)}})


@config
def JSQP(first=None, burst=None, tie="order", pre="reroute"):
    """JSQ at node 1 over nodes 2,3; node 2 has pre-emptive priorities with reroute (finding F9)"""
    mk = lambda: R.NetworkRouting(routers=[R.JoinShortestQueue(destinations=[2, 3], tie_break=tie), R.Leave(), R.Leave()])
    net = ciw.create_network(arrival_distributions={"A": [None, arr("aA2", True, burst), None], "B": [arr("aB1", True, burst), arr("aB2", True, burst), None]},
                             service_distributions={"A": [D("sA")] * 3, "B": [D("sB")] * 3}, number_of_servers=[1, 1, 1],
                             priority_classes=({"A": 0, "B": 1}, [False, pre, False]), routing={"A": mk(), "B": mk()},
                             batching_distributions={"A": [batches(None)] * 3, "B": [batches(None), batches(first), batches(None)]})
    spec = ("nodes", [("jsq", [2, 3], tie), ("leave",), ("leave",)])
    return Cfg(net, {"routing": {"A": spec, "B": spec}})


# ---- processor sharing -------------------------------------------------------------------------------
@config
def PS(capacity="inf", threshold=1, first=None, burst=None, pos=True, tandem=False, capacity2=None):
    capv = INF if capacity == "inf" else capacity
    if capacity2 is not None:
        # PS node feeding a capacity-limited PS node
        net = ciw.create_network(arrival_distributions=[arr("a", pos, burst), None], service_distributions=[D("req"), D("req2")],
                                 number_of_servers=[capv, capacity2], ps_thresholds=[threshold, 1], routing=[[0.0, 1.0], [0.0, 0.0]],
                                 batching_distributions=[batches(first), batches(None)])
        return Cfg(net, node_class=[MonPSNode, MonPSNode])
    if tandem:
        net = ciw.create_network(arrival_distributions=[arr("a", pos, burst), None], service_distributions=[D("req"), D("s2")],
                                 number_of_servers=[capv, 1], ps_thresholds=[threshold, 1], routing=[[0.0, 1.0], [0.0, 0.0]],
                                 batching_distributions=[batches(first), batches(None)])
        return Cfg(net, node_class=[MonPSNode, MonNode])
    net = ciw.create_network(arrival_distributions=[arr("a", pos, burst)], service_distributions=[D("req")], number_of_servers=[capv],
                             ps_thresholds=[threshold], batching_distributions=[batches(first)])
    return Cfg(net, node_class=MonPSNode)


# ---- trackers / deadlock: wrappers adding a tracker or detector to another row ---------------------------
def tracker_of(name):
    T = ciw.trackers
    return {
        "SystemPopulation": lambda: T.SystemPopulation(),
        "NodePopulation": lambda: T.NodePopulation(),
        "NodePopulationSubset": lambda: T.NodePopulationSubset([0]),
        "GroupedNodePopulation": lambda: T.GroupedNodePopulation([[0], [1]]),
        "GroupedNodePopulation3": lambda: T.GroupedNodePopulation([[0, 2], [1]]),
        "GroupedNodePopulation1": lambda: T.GroupedNodePopulation([[0]]),
        "NodeClassMatrix": lambda: T.NodeClassMatrix(),
        "NaiveBlocking": lambda: T.NaiveBlocking(),
        "MatrixBlocking": lambda: T.MatrixBlocking(),
    }[name]()


@config
def TR(base="T2", tracker="NaiveBlocking", **params):
    cfg = REG[base](**params)
    cfg.sim_kw["tracker"] = tracker_of(tracker)
    return cfg


@config
def DL(base="L2", tracker="NaiveBlocking", **params):
    cfg = REG[base](**params)
    cfg.sim_kw["tracker"] = tracker_of(tracker)
    cfg.sim_kw["deadlock_detector"] = ciw.deadlock.StateDigraph()
    cfg.mode = "deadlock"
    cfg.flags["until_deadlock"] = True
    cfg.flags["deepen"] = 5
    return cfg


@config
def MC(base="Q1", n=2, method="Complete", **params):
    cfg = REG[base](**params)
    cfg.mode = ("customers", n, method)
    cfg.flags["max_customers"] = (n, method)
    return cfg


# ---- GEN: composable two-node configuration for feature-combination sweeps ---------------------------------
@config
def GEN(topo="single", c1=1, c2=1, sched=None, cap1=None, cap2=None, syscap=None, classes=1, prio=False, pre=False,
        discipline=None, reneging=None, baulk=None, batch=None, first=None, burst=None, ccafter=False, ccwait=False,
        ps=False, a2=False, p=1.0, jsq=False, offset=0.0):
    """sched: None | ["sc", pre] | ["sc2", pre] (two servers in the first shift) | ["sl", capacitated, pre]
       topo: single | tandem (1->2 w.p. p) | loop (1->2->1 w.p. p) | self (1->1 w.p. p) | fork (1 -> JSQ{2,3})"""
    nn = {"single": 1, "self": 1, "tandem": 2, "loop": 2, "fork": 3}[topo]
    names = ["A", "B"][:classes] if classes > 1 else ["Customer"]
    flags = {}
    # servers
    ns1 = INF if c1 == "inf" else c1
    tt = {}
    if sched is not None:
        kind = sched[0]
        if kind in ("sc", "sc2"):
            values = [1, 0, 2] if kind == "sc" else [2, 1, 2]
            bounds = [2, 3, 5] if kind == "sc" else [1, 2, 4]
            ns1 = ciw.Schedule(numbers_of_servers=values, shift_end_dates=bounds, preemption=sched[1], offset=offset)
            tt[1] = dict(kind="schedule", bounds=bounds, values=values, offset=offset, preemption=sched[1])
            if sched[1] is not False:
                flags["preemptive_schedule"] = True
        else:
            ns1 = ciw.Slotted(slots=list(SL_SLOTS), slot_sizes=list(SL_SIZES), capacitated=sched[1], preemption=sched[2], offset=offset)
            tt[1] = dict(kind="slotted", slots=list(SL_SLOTS), sizes=list(SL_SIZES), offset=offset, capacitated=sched[1], preemption=sched[2])
    if tt:
        flags["timetable"] = tt
    servers = [ns1] + [c2] * (nn - 1)
    kw = {}
    caps = [cap(cap1) if cap1 is not None else INF] + [cap(cap2) if cap2 is not None else INF] * (nn - 1)
    if cap1 is not None or cap2 is not None:
        kw["queue_capacities"] = caps
    if syscap is not None:
        kw["system_capacity"] = syscap
    # routing
    if topo == "single":
        M = [[0.0]]
    elif topo == "self":
        M = [[p]]
    elif topo == "tandem":
        M = [[0.0, p], [0.0, 0.0]]
    elif topo == "loop":
        M = [[0.0, p], [p, 0.0]]
    else:
        M = None
    if topo == "fork":
        def mk():
            return R.NetworkRouting(routers=[R.JoinShortestQueue(destinations=[2, 3], tie_break="order"), R.Leave(), R.Leave()])
        spec = ("nodes", [("jsq", [2, 3], "order"), ("leave",), ("leave",)])
        rjock = None
    else:
        spec = ("nodes", [("prob", list(range(1, nn + 1)), row) for row in M])
    if reneging == "jockey" and nn >= 2:
        # jockeying needs router objects
        def mk():  # noqa: F811
            rs = [Jockey(2)] + [R.Leave()] * (nn - 1)
            return R.NetworkRouting(routers=rs)
        spec = ("nodes", [("leave",)] * nn)
        routing = {k: mk() for k in names}
    elif topo == "fork":
        routing = {k: mk() for k in names}
    else:
        routing = {k: [list(r) for r in M] for k in names}
    flags["routing"] = {k: spec for k in names}
    # classes
    lowest = names[-1]
    ad, sd, bd, rd = {}, {}, {}, {}
    for k in names:
        ad[k] = [arr("a" + k, True, burst)] + [arr("a2" + k, True, burst) if (a2 and j == 1) else None for j in range(1, nn)]
        sd[k] = [D("s%d%s" % (j + 1, k)) for j in range(nn)]
        b1 = batches(first if k == lowest else None, batch if k == lowest else None)
        bd[k] = [b1] + [ciw.dists.Deterministic(1)] * (nn - 1)
        if reneging == "mixed" and nn >= 2:
            rd[k] = [D("p" + k), None] if k == names[0] else [None, D("p" + k)]
            rd[k] = rd[k] + [None] * (nn - 2)
        elif reneging:
            rd[k] = [D("p" + k)] + [None] * (nn - 1)
    if reneging:
        kw["reneging_time_distributions"] = rd
        if reneging == "jockey" and (cap2 is not None):
            flags["overcap_ok"] = True
    if classes > 1:
        pc = {k: (i if prio else 0) for i, k in enumerate(names)}
        kw["priority_classes"] = (pc, [pre] + [False] * (nn - 1))
    if pre == "reroute" and (cap2 is not None or cap1 is not None):
        flags["overcap_ok"] = True
    if sched is not None and sched[0] in ("sc", "sc2") and sched[1] == "reroute":
        flags["overcap_ok"] = True
    if baulk:
        kw["baulking_functions"] = {k: [BaulkFn(baulk)] + [None] * (nn - 1) for k in names}
    if ccafter and classes > 1:
        Mcc = {"A": {"A": 0.5, "B": 0.5}, "B": {"A": 0.0, "B": 1.0}}
        kw["class_change_matrices"] = [Mcc] * nn
        flags["class_change"] = [Mcc] * nn
    if ccwait and classes > 1:
        kw["class_change_time_distributions"] = {"A": {"B": D("cAB")}, "B": {"A": D("cBA")}}
        flags["priority_changes_while_waiting"] = prio
        flags["class_change_waiting"] = True
    if ps:
        kw["ps_thresholds"] = [1] * nn
    net = ciw.create_network(arrival_distributions=ad, service_distributions=sd, number_of_servers=servers, routing=routing,
                             batching_distributions=bd, service_disciplines=[disc(discipline)] * nn, **kw)
    node_class = [MonPSNode] + [MonNode] * (nn - 1) if ps else MonNode
    return Cfg(net, flags, node_class=node_class)


@config
def FK(c1=3, firstA=3, firstB=2, burst=1, c2=1, c3=1, cap2=0, cap3=0, cap1=None):
    """fork by class: class A goes 1 -> 2, class B goes 1 -> 3 (deterministic routes keep the path count low);
    several customers of a multi-server node 1 get blocked towards two different nodes"""
    MA = [[0.0, 1.0, 0.0], [0.0, 0.0, 0.0], [0.0, 0.0, 0.0]]
    MB = [[0.0, 0.0, 1.0], [0.0, 0.0, 0.0], [0.0, 0.0, 0.0]]
    caps = [INF if cap1 is None else cap1, cap2, cap3]
    net = ciw.create_network(arrival_distributions={"A": [arr("aA", True, burst), None, None], "B": [arr("aB", True, burst), None, None]},
                             service_distributions={"A": [D("sA1"), D("sA2"), D("sA3")], "B": [D("sB1"), D("sB2"), D("sB3")]},
                             number_of_servers=[c1, c2, c3], queue_capacities=caps, routing={"A": MA, "B": MB},
                             batching_distributions={"A": [batches(firstA), batches(None), batches(None)], "B": [batches(firstB), batches(None), batches(None)]})
    sp = lambda M: ("nodes", [("prob", [1, 2, 3], row) for row in M])
    return Cfg(net, {"routing": {"A": sp(MA), "B": sp(MB)}})


@config
def DL3(c=(2, 1, 1), first=(2, 1, 1), burst=1):
    """three nodes without waiting room: 1 <-> 2 cycle, node 3 feeds itself; a harmless blocking cycle can coexist
    with a genuine deadlock at node 3"""
    M = [[0.0, 1.0, 0.0], [1.0, 0.0, 0.0], [0.0, 0.0, 1.0]]
    net = ciw.create_network(arrival_distributions=[arr("a1", True, burst), arr("a2", True, burst), arr("a3", True, burst)],
                             service_distributions=[D("s1"), D("s2"), D("s3")], number_of_servers=list(c), queue_capacities=[0, 0, 0],
                             routing=M, batching_distributions=[batches(first[0]), batches(first[1]), batches(first[2])])
    return Cfg(net, {"routing": {"Customer": ("nodes", [("prob", [1, 2, 3], row) for row in M])}})


@config
def SCD(first=None, burst=None, cap2=1, pre=False, c1=1):
    """tandem whose *destination* has the server schedule (non-pre-emptive by default): customers are blocked towards a
    node whose servers go off duty and finish services as overtime"""
    tt = {2: dict(kind="schedule", bounds=list(SC_BOUNDS), values=list(SC_VALUES), offset=0.0, preemption=pre)}
    net = ciw.create_network(arrival_distributions=[arr("a", True, burst), None], service_distributions=[D("s1"), D("s2")],
                             number_of_servers=[c1, ciw.Schedule(numbers_of_servers=list(SC_VALUES), shift_end_dates=list(SC_BOUNDS), preemption=pre)],
                             queue_capacities=[INF, cap2], routing=[[0.0, 1.0], [0.0, 0.0]],
                             batching_distributions=[batches(first), batches(None)])
    flags = {"timetable": tt, "routing": {"Customer": ("nodes", [("prob", [1, 2], [0.0, 1.0]), ("prob", [1, 2], [0.0, 0.0])])}}
    if pre is not False:
        flags["preemptive_schedule"] = True
    return Cfg(net, flags)
