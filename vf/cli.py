"""entry point: python -m vf.cli check C07 [--tier quick|thorough] | replay <file> | selftest | list"""
import os
import sys

from . import runner, props


def main(argv):
    if not argv:
        print(__doc__)
        return 2
    cmd = argv[0]
    if cmd == "check":
        pid = argv[1]
        tier = os.environ.get("VERIF_TIER", "quick")
        if "--tier" in argv:
            tier = argv[argv.index("--tier") + 1]
        seed = int(os.environ.get("VERIF_SEED", "0") or 0)
        P = props.PROPS[pid]
        rows = P[tier]()
        for r in rows:
            if P.get("exc_is_violation"):
                r["exc_is_violation"] = True
        return runner.run_rows(pid, rows, tier, seed, P["mons"], vacuity=P.get("vacuity", ()),
                               extra_assumptions=P.get("assumptions", ()), functions=P.get("functions"))
    if cmd == "replay":
        return runner.replay_file(argv[1])
    if cmd == "selftest":
        from . import selftest
        return selftest.main(argv[1:])
    if cmd == "list":
        for pid, P in sorted(props.PROPS.items()):
            print(pid, len(P["quick"]()), "quick rows,", len(P["thorough"]()), "thorough rows")
        return 0
    print(__doc__)
    return 2


if __name__ == "__main__":
    sys.exit(main(sys.argv[1:]))
