"""entry point: python -m vf.cli check C07 [--tier quick|thorough] | replay <file> | selftest | list"""
import os
import sys

from . import runner, props


def crosshair_kernels(pid, files):
    """Engine B cross-check; only a counterexample that replays on the real function is reported"""
    import json
    import hashlib
    from . import xhair
    r = xhair.run_kernels(files, per_condition_timeout=30)
    rc = 0
    reported = []
    for ce in r["counterexamples"]:
        ok, what = xhair.replay(ce)
        if ok:
            h = hashlib.sha1(ce["line"].encode()).hexdigest()[:10]
            path = os.path.join(runner.VERIF, "replays", "%s-xh-%s.json" % (pid, h))
            with open(path, "w") as f:
                json.dump({"property": pid, "kind": "crosshair", "counterexample": ce, "observed": what}, f, indent=1)
            print("VIOLATION property=%s replay=%s" % (pid, path))
            print("  crosshair kernel %s: %s" % (ce["function"], what))
            reported.append(what)
            rc = 1
        else:
            print("CROSSHAIR counterexample did not replay on the real function (ignored): %s" % ce["line"])
    print("crosshair kernels: %d confirmed, %d not confirmed (inconclusive), %d counterexamples, %.0fs" % (r["confirmed"], r["not_confirmed"], len(r["counterexamples"]), r["wall_s"]))
    evp = os.path.join(runner.VERIF, "evidence", "%s.json" % pid)
    try:
        ev = json.load(open(evp))
        ev["coverage"]["crosshair_cross_check"] = {"kernels": files, "confirmed": r["confirmed"], "not_confirmed_inconclusive": r["not_confirmed"],
                                                    "counterexamples_replayed": reported, "wall_s": r["wall_s"]}
        if rc == 1:
            ev["violations"] = ev.get("violations", 0) + len(reported)
        json.dump(ev, open(evp, "w"), indent=1, default=str)
    except Exception:
        pass
    return rc


def main(argv):
    if not argv:
        print(__doc__)
        return 2
    cmd = argv[0]
    if cmd == "check":
        pid = argv[1]
        tier = os.environ.get("VERIF_TIER", "quick")
        if "--tier" in argv:
            tier = argv[argv.index("--tier") + 1]
        seed = int(os.environ.get("VERIF_SEED", "0") or 0)
        P = props.PROPS[pid]
        props.set_tier(tier)
        rows = P[tier]()
        for r in rows:
            if P.get("exc_is_violation"):
                r["exc_is_violation"] = True
        rc = runner.run_rows(pid, rows, tier, seed, P["mons"], vacuity=P.get("vacuity", ()),
                             extra_assumptions=P.get("assumptions", ()), functions=P.get("functions"))
        if P.get("kernels") and tier == "thorough":
            rc = max(rc, crosshair_kernels(pid, P["kernels"])) if rc != 1 else 1
        return rc
    if cmd == "replay":
        return runner.replay_file(argv[1])
    if cmd == "selftest":
        from . import selftest
        return selftest.main(argv[1:])
    if cmd == "list":
        for pid, P in sorted(props.PROPS.items()):
            print(pid, len(P["quick"]()), "quick rows,", len(P["thorough"]()), "thorough rows")
        return 0
    print(__doc__)
    return 2


if __name__ == "__main__":
    sys.exit(main(sys.argv[1:]))
