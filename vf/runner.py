"""Parallel driver, replay, known findings, evidence."""
import hashlib
import json
import multiprocessing as mp
import os
import re
import sys
import time
import traceback

from . import engine as E
from . import harness as H
from . import monitors as M
from . import configs as C

VERIF = os.path.dirname(os.path.dirname(os.path.abspath(__file__)))
NPROC = int(os.environ.get("VERIF_JOBS", "0")) or min(16, os.cpu_count() or 4)


def cfg_id(cfg):
    name, params = cfg
    return "%s(%s)" % (name, ",".join("%s=%s" % (k, json.dumps(v, separators=(",", ":")).replace('"', "")) for k, v in sorted(params.items())))


# ----------------------------------------------------------------------------------------------
# one path of one row


def make_path_fn(task):
    name, params = task["cfg"]
    monclasses = [getattr(M, m) for m in task["mons"]]
    K = task["K"]
    exc_is_violation = task.get("exc_is_violation", False)
    custom = task.get("custom")
    if custom:
        mod, fn = custom.split(":")
        import importlib
        return getattr(importlib.import_module("vf." + mod), fn)(task)

    def fn(ex):
        H.RandShim.stream = "rnd"
        cfg = C.REG[name](**params)
        mons = [m() for m in monclasses]
        Q = H.MonSimulation(cfg.net, monitors=mons, K=K, flags=dict(cfg.flags), node_class=cfg.node_class, **cfg.sim_kw)
        ex.path_state["Q"] = Q
        mode = cfg.mode
        try:
            if mode == "time":
                T = ex.fresh_real("T", lo=0, lo_strict=True)
                Q.flags["T"] = T
                Q.simulate_until_max_time(T)
            elif mode == "deadlock":
                Q.simulate_until_deadlock()
            else:
                Q.simulate_until_max_customers(mode[1], method=mode[2])
        except Exception as e:
            tb = traceback.extract_tb(e.__traceback__)
            where = " <- ".join("%s:%d" % (os.path.basename(f.filename), f.lineno) for f in tb[-3:])
            msg = "%s: %s at %s" % (type(e).__name__, e, where)
            if exc_is_violation:
                raise E.Violation("C14.exception_" + type(e).__name__, msg, ex._model(None) if ex.symbolic else None)
            raise E.Crash(msg)
        Q.finish()

    return fn


def _run_concrete(task, values):
    """replay one path with plain floats on the unmodified code; returns (violation or None, events, missing)"""
    H.install_stubs()
    cx = E.ConcreteExplorer(values)
    old = E.EX
    E.set_explorer(cx)
    v = None
    try:
        try:
            make_path_fn(task)(cx)
        except E.Abort:
            pass
        except E.Violation as e:
            v = e
        except E.Crash as e:
            v = E.Violation("crash", str(e))
    finally:
        E.set_explorer(old)
    return v, cx.path_events, cx.missing, record_values(cx.path_state.get("Q"), None)


def record_values(Q, w):
    """numeric fields of all records; symbolic fields evaluated under the witness w (exact rationals -> float)"""
    if Q is None:
        return None
    out = []
    for ind in sorted(H.all_inds(Q), key=lambda i: i.id_number):
        for r in ind.data_records:
            row = [r.id_number, r.node, r.record_type]
            for f in ("arrival_date", "waiting_time", "service_start_date", "service_time", "service_end_date", "time_blocked", "exit_date"):
                x = getattr(r, f)
                if isinstance(x, E.SymReal):
                    if w is None:
                        return None
                    x = float(E.Explorer._eval_lin(x.lin, w))
                elif isinstance(x, float) and x != x:
                    x = None
                elif isinstance(x, (int, float)):
                    x = float(x)
                row.append(x)
            out.append(row)
    return out


def records_agree(a, b):
    if a is None or b is None:
        return True
    if len(a) > len(b):
        return False  # the concrete run may have gone further only if the symbolic path was cut by the bound
    for x, y in zip(a, b):
        for u, v in zip(x, y):
            if isinstance(u, float) and isinstance(v, float):
                if abs(u - v) > 1e-9 * max(1.0, abs(u)):
                    return False
            elif u != v:
                return False
    return True


def _worker(task):
    try:
        return _worker_inner(task)
    except BaseException as e:  # never lose a worker silently
        return {"task": task, "fatal": "%s: %s\n%s" % (type(e).__name__, e, traceback.format_exc())}


def _worker_inner(task):
    H.install_stubs()
    ex = E.Explorer(ties=task["ties"], max_paths=task.get("max_paths", 300000), split_depth=task.get("split_depth"),
                    sample_paths=task.get("sample_paths", 2))
    ex.smt_dump_every = task.get("smt_dump_every", 0)
    ex.record_fn = record_values
    E.set_explorer(ex)
    t0 = time.time()
    fn = make_path_fn(task)
    exhausted = ex.explore(fn, prefix=task.get("prefix"))
    wall = time.time() - t0
    # witness replay: the discrete trace of sampled paths must be reproduced by the real code with floats
    validated, mismatches = 0, []
    for s in ex.samples:
        if s.get("witness") is None or not s["witness"].get("__dyadic"):
            continue  # only models on the dyadic grid are exact in floats; others could round a tie apart
        v, events, missing, recs = _run_concrete(task, s["witness"])
        if v is None and events[:len(s["events"])] == s["events"][:len(events)] and len(events) >= min(len(s["events"]), task["K"]) \
                and records_agree(s.get("records"), recs):
            validated += 1
        else:
            mismatches.append({"decisions": s["decisions"], "symbolic": s["events"], "concrete": events,
                               "violation": None if v is None else "%s: %s" % (v.mon, v.msg),
                               "records_symbolic": s.get("records"), "records_concrete": recs})
    E.set_explorer(ex)
    return {
        "task": {k: v for k, v in task.items() if k != "prefix"},
        "prefix_len": len(task.get("prefix") or []),
        "exhausted": exhausted,
        "paths": ex.npaths, "complete": ex.complete, "truncated": ex.truncated, "crashed": ex.crashed,
        "crash_msgs": ex.crash_msgs[:3],
        "queries": ex.nq, "solver_s": round(ex.tq, 3), "obligations": ex.obligations, "discharged": ex.discharged,
        "concrete_checks": ex.concrete_checks, "assumed_distinct": ex.assumed_distinct, "forced_ties": ex.forced_ties,
        "ties_taken": ex.ties_taken, "events": ex.events, "end_states": list(ex.end_states),
        "violations": ex.violations, "sig_counts": {"%s|%s" % (k[0], ",".join(k[1])): v for k, v in ex.sig_counts.items()},
        "samples": ex.samples, "split_prefixes": ex.split_prefixes, "errors": ex.errors, "stats": dict(ex.stats),
        "validated": validated, "mismatches": mismatches, "wall": round(wall, 2), "smt_dump": ex.smt_dump,
    }


# ----------------------------------------------------------------------------------------------
# known findings


def load_known():
    p = os.path.join(VERIF, "known_findings.json")
    if not os.path.exists(p):
        return []
    with open(p) as f:
        return json.load(f).get("findings", [])


def match_known(known, prop, monitor, cid, msg):
    for k in known:
        if k["property"] != prop:
            continue
        if not re.fullmatch(k["monitor"], monitor):
            continue
        if not re.search(k["config"], cid):
            continue
        if k.get("msg") and not re.search(k["msg"], msg or ""):
            continue
        return k
    return None


# ----------------------------------------------------------------------------------------------


def run_rows(prop, rows, tier, seed, mons, vacuity=(), extra_assumptions=(), functions=None, level_note=""):
    """rows: list of dict(cfg=(name, params), K, ties, [mons], [exc_is_violation], [split_depth], [custom])"""
    t0 = time.time()
    H.install_stubs()
    origin = H.check_ciw_origin()
    tasks = []
    for r in rows:
        t = dict(r)
        t.setdefault("mons", mons)
        t.setdefault("split_depth", 5)
        t["prop"] = prop
        tasks.append(t)
    results = []
    fatal = []
    ctx = mp.get_context("fork")
    with ctx.Pool(NPROC) as pool:
        # level 0: every row up to 5 forks deep; level 1: the sub-trees of rows that fanned out, 4 more forks deep;
        # level 2: whatever is left, unsplit.  Keeps 16 workers busy on rows with a few very deep sub-trees.
        level = tasks
        budget = float(os.environ.get("VERIF_BUDGET_S", "0") or 0) or (900 if tier == "quick" else 5400)
        out_of_time = False
        for depth in (5, 4, None):
            nxt = []
            per_row = {}
            it = pool.imap_unordered(_worker, level, chunksize=1)
            while True:
                try:
                    res = it.next(timeout=max(1.0, budget - (time.time() - t0)))
                except StopIteration:
                    break
                except mp.TimeoutError:
                    out_of_time = True
                    break
                if time.time() - t0 > budget:
                    out_of_time = True
                if "fatal" in res:
                    fatal.append(res["fatal"])
                    continue
                results.append(res)
                key = json.dumps(res["task"]["cfg"], sort_keys=True, default=str) + str(res["task"]["K"]) + res["task"]["ties"]
                for pre in res["split_prefixes"]:
                    t = dict(res["task"])
                    t["prefix"] = pre
                    t["sample_paths"] = 1 if len(nxt) % 6 == 0 else 0
                    per_row.setdefault(key, []).append(t)
                    nxt.append(t)
                if out_of_time:
                    break
            if out_of_time:
                fatal.append("time budget of %.0f s exceeded: exploration stopped, the rows are not exhausted (violations found so far are still reported)" % budget)
                pool.terminate()
                break
            if not nxt:
                break
            for key, ts in per_row.items():
                for t in ts:
                    # split again only where the previous level fanned out widely
                    t["split_depth"] = 4 if (depth == 5 and len(ts) >= 16) else None
            level = nxt
    return finish(prop, tier, seed, rows, results, fatal, vacuity, extra_assumptions, functions, origin, t0, level_note)


def finish(prop, tier, seed, rows, results, fatal, vacuity, extra_assumptions, functions, origin, t0, level_note):
    known = load_known()
    per_cfg = {}
    tot = dict(paths=0, complete=0, truncated=0, crashed=0, queries=0, solver_s=0.0, obligations=0, discharged=0,
               concrete_checks=0, assumed_distinct=0, forced_ties=0, ties_taken=0, events=0, validated=0)
    stats = {}
    end_states = set()
    violations = []
    errors = list(fatal)
    mismatches = []
    samples = []
    exhausted = True
    crash_msgs = []
    smt = []
    for r in results:
        cid = cfg_id(r["task"]["cfg"]) + " K=%d ties=%s" % (r["task"]["K"], r["task"]["ties"])
        pc = per_cfg.setdefault(cid, dict(paths=0, complete=0, truncated=0, crashed=0, queries=0, obligations=0, discharged=0,
                                          events=0, assumed_distinct=0, exhausted=True, wall=0.0, violations=0))
        for k in ("paths", "complete", "truncated", "crashed", "queries", "obligations", "discharged", "events", "assumed_distinct"):
            pc[k] += r[k]
        pc["wall"] = round(pc["wall"] + r["wall"], 2)
        pc["exhausted"] = pc["exhausted"] and r["exhausted"]
        pc["violations"] += sum(r["sig_counts"].values())
        for k in tot:
            tot[k] += r[k]
        for k, v in r["stats"].items():
            stats[k] = stats.get(k, 0) + v
        end_states.update((cid, h) for h in r["end_states"])
        exhausted = exhausted and r["exhausted"]
        errors += r["errors"]
        crash_msgs += ["%s: %s" % (cid, m) for m in r["crash_msgs"]]
        for m in r["mismatches"]:
            mismatches.append(dict(m, config=cid))
        for v in r["violations"]:
            violations.append(dict(v, config=cid, task=r["task"]))
        if len(samples) < 3:
            for s in r["samples"][:1]:
                samples.append(dict(config=cid, decisions=s["decisions"][:200], events=s["events"], ended=s["ended"],
                                    witness={k: v for k, v in list((s.get("witness") or {}).items())[:12] if not k.startswith("__")}))
        smt += r["smt_dump"]

    # ---- violations: replay on the real code with floats, then known-finding triage -----------------
    out_lines = []
    groups = {}
    for v in violations:
        groups.setdefault((v["monitor"], v["config"]), []).append(v)
    n_viol, n_known, n_nonrepro = 0, 0, 0
    known_hit = {}
    os.makedirs(os.path.join(VERIF, "replays"), exist_ok=True)
    reported = []
    for (mon, cid), vs in sorted(groups.items()):
        vprop = mon.split(".")[0]
        confirmed = None
        for v in vs[:3]:
            if v["values"] is None:
                continue
            rv, events, missing, _ = _run_concrete(v["task"], v["values"])
            if rv is not None and rv.mon == mon:
                confirmed = (v, rv)
                break
        if confirmed is None:
            n_nonrepro += 1
            errors.append("violation of %s on %s did not reproduce on the real code with floats: %s" % (mon, cid, vs[0]["msg"]))
            continue
        v, rv = confirmed
        k = match_known(known, vprop, mon, cid, rv.msg or v["msg"])
        if k is not None:
            n_known += 1
            if k["id"] not in known_hit:
                known_hit[k["id"]] = k
                out_lines.append("KNOWN-FINDING: property=%s %s [%s] (e.g. %s on %s)" % (vprop, k["what"], k["id"], mon, cid))
            continue
        n_viol += 1
        h = hashlib.sha1(("%s|%s|%s" % (mon, cid, v["decisions"])).encode()).hexdigest()[:10]
        path = os.path.join(VERIF, "replays", "%s-%s.json" % (vprop, h))
        with open(path, "w") as f:
            json.dump({"property": vprop, "monitor": mon, "config": cid, "task": v["task"], "values": v["values"],
                       "decisions": v["decisions"], "events": v["events"], "message": v["msg"],
                       "concrete_message": rv.msg}, f, indent=1, default=str)
        out_lines.append("VIOLATION property=%s replay=%s" % (vprop, path))
        out_lines.append("  monitor=%s config=%s" % (mon, cid))
        out_lines.append("  %s" % (rv.msg or v["msg"]))
        reported.append({"monitor": mon, "config": cid, "message": rv.msg or v["msg"], "replay": path})

    # ---- vacuity ----------------------------------------------------------------------------------------
    vac = [k for k in vacuity if stats.get(k, 0) == 0]
    if vac:
        errors.append("vacuous: monitor antecedents never fired: %s" % vac)
    if tot["paths"] and tot["crashed"] == tot["paths"]:
        errors.append("every explored path crashed inside Ciw: %s" % crash_msgs[:2])
    if not exhausted:
        errors.append("exploration not exhausted within the path cap on some row")
    if mismatches:
        errors.append("witness replay diverged from the symbolic path on %d sampled paths (e.g. %s)" % (len(mismatches), json.dumps(mismatches[0], default=str)[:400]))

    wall = time.time() - t0
    ev = {
        "property_id": prop,
        "tier": tier,
        "seed": seed,
        "level": "model_checking",
        "coverage": {
            "states": len(end_states),
            "transitions": tot["events"],
            "traces_validated_against_impl": tot["validated"],
            "samples": samples or [{"note": "no path sampled"}],
            "exhaustive": bool(exhausted),
            "paths": tot["paths"], "paths_complete": tot["complete"], "paths_truncated_at_bound": tot["truncated"],
            "paths_ended_by_exception_in_ciw": tot["crashed"],
            "solver_queries": tot["queries"], "solver_seconds": round(tot["solver_s"], 2),
            "obligations": tot["obligations"], "discharged": tot["discharged"], "concrete_checks": tot["concrete_checks"],
            "assumed_distinct_dates": tot["assumed_distinct"], "forced_ties": tot["forced_ties"], "ties_taken": tot["ties_taken"],
            "rows": per_cfg,
            "monitor_event_counts": stats,
            "functions_encoded": functions or [],
            "bounds": "per row: K events from the empty system (or the stated loaded start), tie mode as listed; samples over all reals >= 0, uniforms over [0,1); configuration family = the rows listed",
            "ciw_origin": origin,
            "violations_reported": reported,
            "known_findings_seen": sorted(known_hit),
            "crash_messages": crash_msgs[:5],
            "errors": errors[:10],
        },
        "assumptions": list(H.STUBS) + [
            "dates and samples are mathematical reals (IEEE rounding out of scope)",
            "ties=forced rows assume date equalities not forced by the path condition do not occur (count in assumed_distinct_dates)",
            "monitors (oracles) and proxy semantics are trusted; z3 is trusted (cvc5 cross-check in selftest)",
        ] + list(extra_assumptions),
        "wall_s": round(wall, 2),
        "violations": n_viol,
    }
    os.makedirs(os.path.join(VERIF, "evidence"), exist_ok=True)
    with open(os.path.join(VERIF, "evidence", "%s.json" % prop), "w") as f:
        json.dump(ev, f, indent=1, default=str)
    for l in out_lines:
        print(l)
    print("%s %s: rows=%d paths=%d (complete %d, truncated %d, crashed %d) events=%d queries=%d obligations=%d/%d validated=%d wall=%.1fs violations=%d known=%d" % (
        prop, tier, len(rows), tot["paths"], tot["complete"], tot["truncated"], tot["crashed"], tot["events"], tot["queries"],
        tot["discharged"], tot["obligations"], tot["validated"], wall, n_viol, n_known))
    if n_viol:
        return 1
    if errors:
        for e in errors[:10]:
            print("HARNESS-ERROR: %s" % e)
        return 2
    return 0


def replay_file(path):
    with open(path) as f:
        d = json.load(f)
    if d.get("kind") == "crosshair":
        from . import xhair
        ok, what = xhair.replay(d["counterexample"])
        print(("REPRODUCED " if ok else "NOT REPRODUCED ") + what)
        return 1 if ok else 2
    rv, events, missing, _ = _run_concrete(d["task"], d["values"])
    print("replay of %s on %s" % (d["monitor"], d["config"]))
    print("events:", events)
    if rv is None:
        print("NOT REPRODUCED")
        return 2
    print("REPRODUCED %s: %s" % (rv.mon, rv.msg))
    return 1 if rv.mon == d["monitor"] else 2
