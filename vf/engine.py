"""simsym engine: dynamic symbolic execution of the real Ciw code on z3 (linear real arithmetic).

Symbolic numbers are `SymReal` (a float subclass carrying an exact linear form over z3 Real
constants).  Comparisons produce `SymBool`; `bool(SymBool)` asks the active explorer which way to
go.  The explorer does a depth-first search over the feasible decisions, re-executing the program
from the start for every path.  Assertions (`EX.check`) are discharged by the solver under the
path condition.  See DESIGN.md section 2.1 and Appendix A.
"""
import math
import time
from fractions import Fraction

import z3

INF = float("inf")


class Abort(BaseException):
    """fuel bound reached: path truncated"""


class Split(BaseException):
    """split mode: path handed over as a prefix task"""


class Limitation(BaseException):
    """operation the engine cannot represent: the check is inconclusive"""


class Crash(BaseException):
    """the code under test raised an exception on this path"""


class Violation(BaseException):
    def __init__(self, mon, msg, model=None, model_fn=None):
        self.mon, self.msg, self._model, self.model_fn = mon, msg, model, model_fn

    @property
    def model(self):
        if self._model is None and self.model_fn is not None:
            self._model = self.model_fn()
            self.model_fn = None
        return self._model


_OPS = {
    "<": lambda a, b: a < b,
    "<=": lambda a, b: a <= b,
    "==": lambda a, b: a == b,
}

EX = None  # the active explorer (symbolic or concrete)


def set_explorer(ex):
    global EX
    EX = ex
    return ex


# ----------------------------------------------------------------------------------------------
# linear forms


class Lin:
    __slots__ = ("t", "c")

    def __init__(self, t, c):
        self.t, self.c = t, c

    def add(self, o, sign=1):
        if not o.t:
            return Lin(self.t, self.c + sign * o.c)
        t = dict(self.t)
        for n, k in o.t.items():
            v = t.get(n, 0) + sign * k
            if v == 0:
                t.pop(n, None)
            else:
                t[n] = v
        return Lin(t, self.c + sign * o.c)

    def scale(self, k):
        if k == 0:
            return Lin({}, Fraction(0))
        return Lin({n: v * k for n, v in self.t.items()}, self.c * k)

    def key(self):
        return (tuple(sorted(self.t.items())), self.c)

    def z3expr(self, ex):
        terms = []
        for n, k in self.t.items():
            v = ex.var(n)
            terms.append(v if k == 1 else z3.RealVal(str(k)) * v)
        return z3.Sum(terms) if len(terms) > 1 else terms[0]

    def z3cond(self, op, positive, ex):
        key = (tuple(sorted(self.t.items())), self.c, op, positive)
        r = _COND_CACHE.get(key)
        if r is not None:
            for n in self.t:
                ex.var(n)
            return r
        e = self.z3expr(ex)
        rhs = z3.RealVal(str(-self.c))
        if op == "<":
            r = e < rhs if positive else e >= rhs
        elif op == "<=":
            r = e <= rhs if positive else e > rhs
        else:
            r = e == rhs if positive else e != rhs
        if len(_COND_CACHE) > 400000:
            _COND_CACHE.clear()
        _COND_CACHE[key] = r
        return r

    def pretty(self):
        parts = []
        for n, k in sorted(self.t.items()):
            parts.append(("%s*%s" % (k, n)) if k != 1 else n)
        if self.c != 0 or not parts:
            parts.append(str(self.c))
        return " + ".join(parts)


_COND_CACHE = {}
_VAR_CACHE = {}
ZERO = Lin({}, Fraction(0))


def _lin(x):
    """linear form of x; None for inf/nan; NotImplemented for non-numbers"""
    if isinstance(x, SymReal):
        return x.lin
    if isinstance(x, SymRatio):
        raise Limitation("arithmetic on a symbolic quotient")
    if isinstance(x, (bool, int)):
        return Lin({}, Fraction(int(x)))
    if isinstance(x, float):
        if math.isinf(x) or math.isnan(x):
            return None
        return Lin({}, Fraction(x))
    if isinstance(x, Fraction):
        return Lin({}, x)
    return NotImplemented


class SymBool:
    __slots__ = ("lin", "op", "pos")

    def __init__(self, lin, op, pos=True):
        self.lin, self.op, self.pos = lin, op, pos

    def __bool__(self):
        if self.op == "==":
            r = EX.decide_eq(self.lin)
        else:
            r = EX.branch_lin(self.lin, self.op)
        return r if self.pos else not r

    def negate(self):
        return SymBool(self.lin, self.op, not self.pos)

    def __repr__(self):
        return "SymBool(%s%s %s 0)" % ("" if self.pos else "not ", self.lin.pretty(), self.op)


class SymReal(float):
    """float subclass with a hidden linear form; the C double is a dummy (1.0)"""

    def __new__(cls, lin):
        o = float.__new__(cls, 1.0)
        o.lin = lin
        return o

    def __deepcopy__(self, memo):
        return self

    def __copy__(self):
        return self

    def __reduce__(self):
        raise Limitation("pickling a symbolic value")

    def __repr__(self):
        return "<%s>" % self.lin.pretty()

    __str__ = __repr__

    def __format__(self, spec):
        return repr(self)

    def __hash__(self):
        if self.lin.t:
            raise Limitation("hash of a symbolic value")
        return hash(self.lin.c)

    def __add__(self, o):
        l = _lin(o)
        if l is NotImplemented:
            return NotImplemented
        if l is None:
            return o
        return SymReal(self.lin.add(l))

    __radd__ = __add__

    def __sub__(self, o):
        l = _lin(o)
        if l is NotImplemented:
            return NotImplemented
        if l is None:
            return -o
        return SymReal(self.lin.add(l, -1))

    def __rsub__(self, o):
        l = _lin(o)
        if l is NotImplemented:
            return NotImplemented
        if l is None:
            return o
        return SymReal(l.add(self.lin, -1))

    def __neg__(self):
        return SymReal(self.lin.scale(-1))

    def __pos__(self):
        return self

    def __abs__(self):
        if EX.branch_lin(self.lin, "<"):
            return -self
        return self

    def __mul__(self, o):
        l = _lin(o)
        if l is NotImplemented:
            return NotImplemented
        if l is None:
            # x * inf : sign of x decides
            if math.isnan(o):
                return o
            if EX.branch_lin(self.lin, "=="):
                return float("nan")
            return o if EX.branch_lin(self.lin.scale(-1), "<") else -o
        if not l.t:
            return SymReal(self.lin.scale(l.c))
        if not self.lin.t:
            return SymReal(l.scale(self.lin.c))
        raise Limitation("non-linear multiplication")

    __rmul__ = __mul__

    def __truediv__(self, o):
        l = _lin(o)
        if l is NotImplemented:
            return NotImplemented
        if l is None:
            if math.isnan(o):
                return o
            return 0.0
        if not l.t:
            if l.c == 0:
                raise ZeroDivisionError("float division by zero")
            return SymReal(self.lin.scale(1 / l.c))
        if EX.branch_lin(l, "=="):
            raise ZeroDivisionError("float division by zero")
        return SymRatio(self.lin, l)

    def __rtruediv__(self, o):
        l = _lin(o)
        if l is NotImplemented:
            return NotImplemented
        if not self.lin.t:
            if self.lin.c == 0:
                raise ZeroDivisionError("float division by zero")
            if l is None:
                return o if self.lin.c > 0 else -o
            return SymReal(l.scale(1 / self.lin.c))
        if EX.branch_lin(self.lin, "=="):
            raise ZeroDivisionError("float division by zero")
        if l is None:
            raise Limitation("inf / symbolic")
        return SymRatio(l, self.lin)

    def __floordiv__(self, o):
        raise Limitation("floor division of a symbolic value")

    __rfloordiv__ = __mod__ = __rmod__ = __pow__ = __rpow__ = __divmod__ = __floordiv__

    def _cmp(self, o, op, swap, inf_pos, inf_neg):
        if isinstance(o, float) and not isinstance(o, (SymReal, SymRatio)):
            if math.isnan(o):
                return False
            if o == INF:
                return inf_pos
            if o == -INF:
                return inf_neg
        l = _lin(o)
        if l is NotImplemented:
            return NotImplemented
        d = l.add(self.lin, -1) if swap else self.lin.add(l, -1)
        if not d.t:
            return _OPS[op](d.c, 0)
        return SymBool(d, op)

    def __lt__(self, o):
        return self._cmp(o, "<", False, True, False)

    def __le__(self, o):
        return self._cmp(o, "<=", False, True, False)

    def __gt__(self, o):
        return self._cmp(o, "<", True, False, True)

    def __ge__(self, o):
        return self._cmp(o, "<=", True, False, True)

    def __eq__(self, o):
        r = self._cmp(o, "==", False, False, False)
        return False if r is NotImplemented else r

    def __ne__(self, o):
        r = self._cmp(o, "==", False, False, False)
        if r is NotImplemented:
            return True
        if isinstance(r, SymBool):
            return r.negate()
        return not r

    def __bool__(self):
        if not self.lin.t:
            return self.lin.c != 0
        return not EX.decide_eq(self.lin)

    def __int__(self):
        if not self.lin.t:
            return int(self.lin.c)
        if EX.branch_lin(self.lin, "<"):
            raise Limitation("int() of a negative symbolic value")
        k = 0
        while not EX.branch_lin(self.lin.add(Lin({}, Fraction(k + 1)), -1), "<"):
            k += 1
            if k > 64:
                raise Limitation("int() enumeration beyond 64")
        return k

    __trunc__ = __int__

    def __float__(self):
        if not self.lin.t:
            return float(self.lin.c)
        raise Limitation("float() of a symbolic value")

    def __round__(self, n=None):
        raise Limitation("round() of a symbolic value")

    def is_integer(self):
        raise Limitation("is_integer() of a symbolic value")


class SymRatio(float):
    """opaque quotient of two linear forms; monitors inspect .num / .den"""

    def __new__(cls, num, den):
        o = float.__new__(cls, 1.0)
        o.num, o.den = num, den
        return o

    def __deepcopy__(self, memo):
        return self

    def __repr__(self):
        return "<(%s)/(%s)>" % (self.num.pretty() if self.num is not None else "inf", self.den.pretty())

    def _no(self, *a):
        raise Limitation("arithmetic on a symbolic quotient")

    __add__ = __radd__ = __sub__ = __rsub__ = __mul__ = __rmul__ = __truediv__ = __rtruediv__ = _no
    __lt__ = __le__ = __gt__ = __ge__ = __bool__ = __float__ = __int__ = _no

    def __hash__(self):
        raise Limitation("hash of a symbolic quotient")


def is_sym(x):
    return isinstance(x, (SymReal, SymRatio))


def sym(x):
    """SymReal view of a plain number (for uniform monitor arithmetic)"""
    if isinstance(x, SymReal):
        return x
    l = _lin(x)
    if l is None or l is NotImplemented:
        raise Limitation("not a finite number: %r" % (x,))
    return SymReal(l)


def isnum(x):
    """a finite number (symbolic or not), not a bool, not nan/inf"""
    if isinstance(x, bool):
        return False
    if isinstance(x, SymReal):
        return True
    if isinstance(x, SymRatio):
        return False
    if isinstance(x, (int, Fraction)):
        return True
    if isinstance(x, float):
        return not (math.isnan(x) or math.isinf(x))
    return False


# ----------------------------------------------------------------------------------------------
# monitor-side relations: never fork, return SymBool (symbolic mode) or bool (concrete)

TOL = 1e-9


def _rel(a, b, op):
    if isinstance(a, SymReal) or isinstance(b, SymReal):
        la, lb = _lin(a), _lin(b)
        if la is NotImplemented or lb is NotImplemented:
            return False
        if la is None or lb is None:
            # the other side is +-inf or nan
            x = a if la is None else b
            if x != x:
                return False
            if la is None and lb is None:
                return _OPS[op](a, b)
            if la is None:  # a infinite, b symbolic finite
                return False if a > 0 else op != "=="
            return op != "==" if b > 0 else False
        d = la.add(lb, -1)
        if not d.t:
            return _OPS[op](d.c, 0)
        return SymBool(d, op)
    # concrete
    try:
        if isinstance(a, bool) or isinstance(b, bool):
            a, b = float(a), float(b)
        if isinstance(a, Fraction):
            a = float(a)
        if isinstance(b, Fraction):
            b = float(b)
        if a != a or b != b:
            return False
        if op == "==":
            if a == b:
                return True
            if math.isinf(a) or math.isinf(b):
                return False
            return abs(a - b) <= TOL * max(1.0, abs(a), abs(b))
        if op == "<=":
            return a <= b or abs(a - b) <= TOL * max(1.0, abs(a), abs(b))
        if op == "<":
            return a < b and not abs(a - b) <= TOL * max(1.0, abs(a), abs(b))
    except TypeError:
        return False


def EQ(a, b):
    return _rel(a, b, "==")


def LE(a, b):
    return _rel(a, b, "<=")


def LT(a, b):
    return _rel(a, b, "<")


class AnyOf:
    """disjunction of relations (monitor side)"""

    def __init__(self, *conds):
        self.conds = conds


class AllOf:
    def __init__(self, *conds):
        self.conds = conds


class RatioEQ:
    """n1/d1 == n2/d2 for positive denominators, decided as n1*d2 == n2*d1 (the only non-linear obligation kind;
    small, handed to z3's non-linear real arithmetic; `unknown` makes the check inconclusive)"""

    def __init__(self, n1, d1, n2, d2):
        self.parts = (n1, d1, n2, d2)


# ----------------------------------------------------------------------------------------------
# explorers


class Stats(dict):
    def inc(self, k, n=1):
        self[k] = self.get(k, 0) + n


class BaseExplorer:
    symbolic = False

    def __init__(self):
        self.stats = Stats()
        self.tags = set()

    def tag(self, t):
        self.tags.add(t)

    def seen(self, k, n=1):
        self.stats.inc(k, n)


class Explorer(BaseExplorer):
    """symbolic DFS explorer"""

    symbolic = True

    def __init__(self, ties="forced", max_paths=10**9, split_depth=None, max_violations=40,
                 sample_paths=3, collect=None):
        super().__init__()
        self.ties = ties
        self.plan = []
        self.nq = 0
        self.tq = 0.0
        self.npaths = 0
        self.truncated = 0
        self.complete = 0
        self.assumed_distinct = 0
        self.forced_ties = 0
        self.ties_taken = 0
        self.zero_samples_taken = 0
        self.obligations = 0
        self.discharged = 0
        self.skipped_in_prefix = 0
        self.concrete_checks = 0
        self.events = 0
        self.max_paths = max_paths
        self.split_depth = split_depth
        self.split_prefixes = []
        self.violations = []
        self.max_violations = max_violations
        self.sig_counts = {}
        self.samples = []
        self.sample_paths = sample_paths
        self.end_states = set()
        self.errors = []
        self.crashed = 0
        self.crash_msgs = []
        self.record_fn = None
        self.smt_dump = []  # sampled obligations for the second solver
        self.smt_dump_every = 0

    # -- per path ------------------------------------------------------------------------
    def start(self):
        self.solver = z3.SimpleSolver()
        self.trail = []
        self.pos = 0
        self.counter = {}
        self.vars = {}
        self.witness = None
        self.tags = set()
        self.choices = {}
        self.path_events = []
        self.nforks = 0
        self.path_state = {}
        self.asserted = []  # z3 constraints of PC (for dumps)

    def _add(self, c):
        self.solver.add(c)
        if self.smt_dump_every:
            self.asserted.append(c)

    def _check(self, *assump):
        t = time.perf_counter()
        r = self.solver.check(*assump)
        self.tq += time.perf_counter() - t
        self.nq += 1
        if r == z3.unknown:
            raise Limitation("solver returned unknown: %s" % self.solver.reason_unknown())
        return r == z3.sat

    def _get_witness(self):
        if self.witness is None:
            if not self._check():
                raise Limitation("path condition unsatisfiable (engine bug)")
            m = self.solver.model()
            w = {}
            for name, v in self.vars.items():
                val = m.eval(v, model_completion=True)
                w[name] = Fraction(val.numerator_as_long(), val.denominator_as_long())
            self.witness = w
        return self.witness

    @staticmethod
    def _eval_lin(lin, w):
        return lin.c + sum(k * w[n] for n, k in lin.t.items())

    def _new_fork(self):
        self.nforks += 1
        if self.split_depth is not None and self.nforks > self.split_depth:
            raise Split()

    def branch_lin(self, lin, op):
        """decide (lin op 0); forks when both sides are feasible"""
        if not lin.t:
            return _OPS[op](lin.c, 0)
        if self.pos < len(self.plan):
            val, alt = self.plan[self.pos]
            self.trail.append([val, alt])
            if alt:
                self.nforks += 1
            self.witness = None
        else:
            w = self._get_witness()
            val = _OPS[op](self._eval_lin(lin, w), 0)
            alt = self._check(lin.z3cond(op, not val, self))
            if alt:
                self._new_fork()
            self.trail.append([val, alt])
        self.pos += 1
        self._add(lin.z3cond(op, val, self))
        return val

    def decide_eq(self, lin):
        if not lin.t:
            return lin.c == 0
        if self.ties == "all":
            r = self.branch_lin(lin, "==")
            if r:
                self.ties_taken += 1
            return r
        if len(lin.t) == 1 and lin.c == 0:
            # "this one sample is exactly 0" is a boundary value of the sample's domain, not a coincidence of two dates:
            # explored in both tie modes
            r = self.branch_lin(lin, "==")
            if r:
                self.zero_samples_taken += 1
            return r
        # forced-only: an equality PC does not force is assumed false
        w = self._get_witness()
        if self._eval_lin(lin, w) != 0:
            self._add(lin.z3cond("==", False, self))
            self.assumed_distinct += 1
            return False
        if self._check(lin.z3cond("==", False, self)):
            self._add(lin.z3cond("==", False, self))
            self.witness = None
            self.assumed_distinct += 1
            return False
        self.forced_ties += 1
        return True

    def decide_free(self):
        """unconstrained boolean fork"""
        if self.pos < len(self.plan):
            val, alt = self.plan[self.pos]
            self.trail.append([val, alt])
            if alt:
                self.nforks += 1
        else:
            val, alt = True, True
            self._new_fork()
            self.trail.append([val, alt])
        self.pos += 1
        return val

    def choose(self, n, label):
        """finite nondeterministic choice in range(n), concrete per path"""
        k = self.counter.get("choice_" + label, 0)
        self.counter["choice_" + label] = k + 1
        name = "choice_%s_%d" % (label, k)
        if name in self.choices:
            # the same named choice again (self-composition harnesses rewind the draw counters for the second run):
            # it is the same input, not a new decision
            return self.choices[name]
        r = n - 1
        for i in range(n - 1):
            if self.decide_free():
                r = i
                break
        self.choices[name] = r
        return r

    def var(self, name):
        v = self.vars.get(name)
        if v is None:
            v = _VAR_CACHE.get(name)
            if v is None:
                v = _VAR_CACHE[name] = z3.Real(name)
            self.vars[name] = v
        return v

    def fresh_real(self, name, lo=0, hi=None, lo_strict=False, hi_strict=False):
        k = self.counter.get(name, 0)
        self.counter[name] = k + 1
        nm = "%s_%d" % (name, k)
        v = self.var(nm)
        if lo is not None:
            self._add(v > lo if lo_strict else v >= lo)
        if hi is not None:
            self._add(v < hi if hi_strict else v <= hi)
        if self.witness is not None and nm not in self.witness:
            if lo is not None and hi is not None:
                x = (Fraction(lo) + Fraction(hi)) / 2
            elif lo is not None:
                x = Fraction(lo) + 1
            elif hi is not None:
                x = Fraction(hi) - 1
            else:
                x = Fraction(0)
            self.witness[nm] = x
        return SymReal(Lin({nm: Fraction(1)}, Fraction(0)))

    def assume(self, cond):
        """add an assumption on the inputs (listed in evidence by the caller)"""
        if isinstance(cond, SymBool):
            self._add(cond.lin.z3cond(cond.op, cond.pos, self))
            self.witness = None
        elif not cond:
            raise Limitation("assumption concretely false")

    # -- assertions ----------------------------------------------------------------------
    def _z3_of(self, cond):
        """z3 formula of a monitor condition, or a python bool"""
        if isinstance(cond, SymBool):
            if not cond.lin.t:
                return _OPS[cond.op](cond.lin.c, 0) == cond.pos
            return cond.lin.z3cond(cond.op, cond.pos, self)
        if isinstance(cond, AnyOf):
            parts = [self._z3_of(c) for c in cond.conds]
            if any(p is True for p in parts):
                return True
            parts = [p for p in parts if p is not False]
            if not parts:
                return False
            return z3.Or(*parts) if len(parts) > 1 else parts[0]
        if isinstance(cond, RatioEQ):
            ls = [_lin(x) for x in cond.parts]
            if any(l is None or l is NotImplemented for l in ls):
                return False
            if all(not l.t for l in ls):
                return ls[0].c * ls[3].c == ls[2].c * ls[1].c
            zs = [(l.z3expr(self) if l.t else 0) + z3.RealVal(str(l.c)) for l in ls]
            return zs[0] * zs[3] == zs[2] * zs[1]
        if isinstance(cond, AllOf):
            parts = [self._z3_of(c) for c in cond.conds]
            if any(p is False for p in parts):
                return False
            parts = [p for p in parts if p is not True]
            if not parts:
                return True
            return z3.And(*parts) if len(parts) > 1 else parts[0]
        return bool(cond)

    def check(self, cond, mon, msg=""):
        if self.pos < len(self.plan):
            # still replaying the stored decision prefix: this very obligation was discharged (under the
            # same path condition) on the path that created the prefix
            self.skipped_in_prefix += 1
            return
        f = self._z3_of(cond)
        if f is True:
            self.concrete_checks += 1
            return
        if f is False:
            self.concrete_checks += 1
            raise Violation(mon, msg() if callable(msg) else msg, model_fn=lambda: self._model(None))
        self.obligations += 1
        neg = z3.Not(f)
        if self.smt_dump_every and self.obligations % self.smt_dump_every == 0 and len(self.smt_dump) < 40:
            s2 = z3.Solver()
            s2.add(*self.asserted)
            s2.add(neg)
            self.smt_dump.append(s2.to_smt2())
        if self._check(neg):
            raise Violation(mon, msg() if callable(msg) else msg, model_fn=lambda: self._model(neg))
        self.discharged += 1

    def feasible(self, cond):
        """is cond satisfiable together with PC? (monitor-side query, no fork)"""
        f = self._z3_of(cond)
        if f is True or f is False:
            return f
        return self._check(f)

    def holds(self, cond):
        """is cond valid under PC? (monitor-side query, no fork)"""
        f = self._z3_of(cond)
        if f is True or f is False:
            return f
        return not self._check(z3.Not(f))

    def _model(self, extra, dyadic_timeout=20000):
        """a model of PC (and extra), preferring dyadic values k/1024 (exact in floats)"""
        s = self.solver
        s.push()
        try:
            if extra is not None:
                s.add(extra)
            m, dyadic = None, False
            s.push()
            try:
                for i, (name, v) in enumerate(self.vars.items()):
                    s.add(v * 1024 == z3.ToReal(z3.Int("__k%d" % i)))
                s.set("timeout", dyadic_timeout)
                t = time.perf_counter()
                if s.check() == z3.sat:
                    m, dyadic = s.model(), True
                self.tq += time.perf_counter() - t
            finally:
                s.set("timeout", 4294967295)
                s.pop()
            if m is None:
                if s.check() != z3.sat:
                    return None
                m = s.model()
            out = {}
            for name, v in self.vars.items():
                val = m.eval(v, model_completion=True)
                out[name] = "%d/%d" % (val.numerator_as_long(), val.denominator_as_long())
            out.update(self.choices)
            out["__dyadic"] = dyadic
            return out
        finally:
            s.pop()

    def witness_values(self):
        """model of the current PC in replay format"""
        return self._model(None)

    # -- exploration ----------------------------------------------------------------------
    def explore(self, fn, prefix=None):
        """DFS over fn's decision tree below `prefix` (list of bools). Returns True if exhausted."""
        self.plan = [[bool(v), False] for v in (prefix or [])]
        base = len(self.plan)
        while True:
            self.start()
            ended = "complete"
            try:
                fn(self)
                self.complete += 1
            except Abort:
                self.truncated += 1
                ended = "truncated"
            except Split:
                self.split_prefixes.append([v for v, _ in self.trail])
                ended = "split"
            except Violation as v:
                ended = "violation"
                self._record_violation(v)
            except Crash as e:
                ended = "crash"
                self.crashed += 1
                if len(self.crash_msgs) < 5:
                    self.crash_msgs.append(str(e))
            except Limitation as e:
                ended = "limitation"
                self.errors.append("engine limitation: %s" % (e,))
            if ended != "split":
                self.npaths += 1
                if len(self.samples) < self.sample_paths and ended in ("complete", "truncated"):
                    w = self._safe_witness()
                    recs = None
                    if w is not None and self.record_fn is not None:
                        try:
                            recs = self.record_fn(self.path_state.get("Q"), {k: Fraction(v) for k, v in w.items() if isinstance(v, str) and not k.startswith("__")})
                        except Exception:
                            recs = None
                    self.samples.append({
                        "decisions": "".join("T" if v else "F" for v, _ in self.trail),
                        "events": list(self.path_events),
                        "ended": ended,
                        "witness": w,
                        "records": recs,
                    })
                if ended in ("complete", "truncated"):
                    self.end_states.add(hash(tuple(self.path_events)))
            tr = self.trail
            while len(tr) > base and not tr[-1][1]:
                tr.pop()
            if len(tr) <= base:
                return True
            if self.npaths >= self.max_paths or len(self.errors) > 5:
                return False
            tr[-1] = [not tr[-1][0], False]
            self.plan = tr

    def _safe_witness(self):
        try:
            w = self._model(None, dyadic_timeout=1500)
            return {k: v for k, v in (w or {}).items() if not k.startswith("__") or k == "__dyadic"}
        except BaseException:
            return None

    def _record_violation(self, v):
        sig = (v.mon, tuple(sorted(self.tags)))
        n = self.sig_counts.get(sig, 0)
        self.sig_counts[sig] = n + 1
        if n < 3 and len(self.violations) < self.max_violations:
            self.violations.append({
                "monitor": v.mon,
                "msg": v.msg,
                "tags": sorted(self.tags),
                "values": v.model,
                "decisions": "".join("T" if x else "F" for x, _ in self.trail),
                "events": list(self.path_events),
            })


class ConcreteExplorer(BaseExplorer):
    """replay: plain floats from a value table; monitors evaluate concretely"""

    symbolic = False
    ties = "all"

    def __init__(self, values):
        super().__init__()
        self.values = values
        self.counter = {}
        self.path_events = []
        self.events = 0
        self.choices = {}
        self.path_state = {}
        self.missing = []

    @staticmethod
    def _num(s):
        if isinstance(s, str):
            if "/" in s:
                p, q = s.split("/")
                return int(p) / int(q)
            return float(s)
        return float(s)

    def fresh_real(self, name, lo=0, hi=None, lo_strict=False, hi_strict=False):
        k = self.counter.get(name, 0)
        self.counter[name] = k + 1
        nm = "%s_%d" % (name, k)
        if nm not in self.values:
            self.missing.append(nm)
            # value not in the model: any admissible value will do
            if lo is not None and hi is not None:
                return (lo + hi) / 2.0
            return float(lo if lo is not None else 0) + 1.0
        return self._num(self.values[nm])

    def choose(self, n, label):
        k = self.counter.get("choice_" + label, 0)
        self.counter["choice_" + label] = k + 1
        nm = "choice_%s_%d" % (label, k)
        if nm not in self.values:
            self.missing.append(nm)
            return 0
        return int(self.values[nm])

    def decide_free(self):
        raise Limitation("decide_free in replay")

    def assume(self, cond):
        pass

    def _eval(self, cond):
        if isinstance(cond, RatioEQ):
            n1, d1, n2, d2 = [float(x) for x in cond.parts]
            if d1 == 0 or d2 == 0:
                return False
            return abs(n1 / d1 - n2 / d2) <= 1e-9 * max(1.0, abs(n1 / d1))
        if isinstance(cond, AnyOf):
            return any(self._eval(c) for c in cond.conds)
        if isinstance(cond, AllOf):
            return all(self._eval(c) for c in cond.conds)
        return bool(cond)

    def check(self, cond, mon, msg=""):
        if not self._eval(cond):
            raise Violation(mon, msg() if callable(msg) else msg, None)

    def feasible(self, cond):
        return self._eval(cond)

    def holds(self, cond):
        return self._eval(cond)
