"""Per-property row tables (configuration, K, tie mode) for the quick and thorough tiers, the monitors
each check switches on, and the antecedent counters that must be non-zero (vacuity guard)."""


def row(name, K, ties="forced", **params):
    return dict(cfg=(name, params), K=K, ties=ties)


def crow(custom, K, ties="all", **params):
    return dict(cfg=(custom.split(":")[1], params), K=K, ties=ties, custom=custom, mons=[])


def bump(rows, dk):
    return [dict(r, K=r["K"] + dk) for r in rows]


def with_ties(rows, dk=-1):
    return [dict(r, K=max(2, r["K"] + dk), ties="all") for r in rows]


# ---- shared row groups ---------------------------------------------------------------------------
def plain(K):
    return [row("Q1", K + 1, c=1), row("Q1", K, c=2), row("Q1", K, c="inf"), row("Q1", K, c=0),
            row("Q1", K, c=1, cap_=1, syscap=2, batch=[0, 1, 2]), row("Q1", K, c=2, first=3, discipline="LIFO")]


def blocking(K):
    return [row("T2", K + 1), row("T2", K + 1, c1=3, first=3, burst=1), row("T2", K, c1=2, caps=[1, 0], a2=True),
            row("T2", K, caps=[1, 1], first=2), row("L2", K - 1), row("L2", K + 1, first=[2, 2], burst=1),
            row("L2", K, caps=[0, 0], p=0.5), row("S1", K + 1), row("S1", K, c=2, cap_=1, first=2), row("L3", K)]


def priorities(K):
    return [row("P1", K, c=1), row("P1", K - 1, c=2, classes=3)]


def preemption(K):
    return [row("P1", K, c=1, pre="resume"), row("P1", K, c=1, pre="restart"), row("P1", K, c=1, pre="resample"),
            row("P1", K - 1, c=2, pre="resume"), row("P1", K - 1, c=2, pre="restart", first=2), row("P1", K - 1, c=1, pre="reroute", to=2),
            row("P1", K - 1, c=1, pre="reroute")]


def schedules(K, pre_opts=(False, "resume", "restart", "resample", "reroute")):
    out = []
    for p in pre_opts:
        out.append(row("SC", K, pre=p))
    out.append(row("SC", K, pre=False, offset=0.5, first=2))
    out.append(row("SC", K, pre="restart", offset=0.5))
    return out


def slotted(K):
    return [row("SL", K), row("SL", K, capacitated=True), row("SL", K, capacitated=True, pre="resume"),
            row("SL", K, capacitated=True, pre="restart", first=2), row("SL", K, offset=0.5, first=3),
            row("SL", K + 1, capacitated=True, pre="resume", slots=[1.0, 2.0, 3.0, 10.0], sizes=[3, 2, 1, 3], first=3, burst=1),
            row("SL", K + 1, capacitated=True, pre="resample", slots=[1.0, 2.0, 3.0, 10.0], sizes=[3, 2, 1, 3], first=4, burst=1)]


def reneging(K):
    return [row("RN", K), row("RN", K, c=2, first=3), row("RN", K, jockey=True), row("RN", K - 1, prio=True), row("RN", K, sched=True)]


def baulking(K):
    return [row("BK", K, kind="sym"), row("BK", K, kind="zero"), row("BK", K, kind="one"), row("BK", K, kind="full_at_2", first=3)]


def classchange(K):
    return [row("CCa", K), row("CCa", K, nodes=2), row("CCa", K, nodes=2, blocking=True, prio=True),
            row("CCw", K - 1, burst=2), row("CCw", K - 1, nodes=2, burst=1), row("CCw", K - 1, prio=True, burst=2)]


def routing(K):
    return [row("RT", K, router="prob"), row("RT", K, router="prob0"), row("RT", K, router="direct"), row("RT", K, router="leave"),
            row("RT", K, router="cycle"), row("RT", K, router="jsq"), row("RT", K, router="jsq", tie="order", first=3),
            row("RT", K, router="lb"), row("RT", K, router="lb", tie="order", first=3, a23=True),
            row("RT", K - 1, router="process"), row("RT", K - 1, router="flex", rule="any", choice="random"),
            row("RT", K - 1, router="flex", rule="all", choice="jsq"), row("RT", K - 1, router="flex", rule="all", choice="lb"),
            row("RT", K, router="flex", rule="any", choice="lb", shared=True, first=2, burst=2), row("RT", K, router="flex", rule="any", choice="random", shared=True, first=3, burst=1),
            row("RTM", K - 1)]


def ps(K):
    return [row("PS", K), row("PS", K, capacity=1), row("PS", K, capacity=2, threshold=2, first=3), row("PS", K, threshold=2, first=3),
            row("PS", K - 1, tandem=True)]


from . import combos as _combos

# feature pairs that run into recorded defects (F7, F10, F13) and are swept only where that finding is listed
_F7 = [{"sc_resume", x} for x in ("block", "block1", "selfloop", "loop")]
_F10 = [{r, x} for r in ("renege", "jockey", "jockeyfull", "renege2") for x in ("pre_resume", "pre_restart", "pre_resample")]
_F13 = [{r, x} for r in ("selfloop", "loop") for x in ("pre_reroute", "sc_reroute")]
# blocking together with pre-emption is outside C07 / C11 (and makes interrupted blocked customers)
_BLOCKPRE = [{b, x} for b in ("block", "block1", "selfloop", "loop") for x in ("pre_resume", "pre_restart", "pre_resample", "pre_reroute", "sc_resume", "sc_restart", "sc_resample", "sc_reroute", "slcap")]


_KTABLE = None
CAPS = {"quick": (500, 400), "thorough": (4000, 3000)}   # path caps per sweep row: (ties=forced, ties=all)
_TIER = "quick"


def set_tier(t):
    global _TIER
    _TIER = t


def _ktable():
    global _KTABLE
    if _KTABLE is None:
        import json
        import os
        p = os.path.join(os.path.dirname(os.path.abspath(__file__)), "combo_k.json")
        _KTABLE = json.load(open(p)) if os.path.exists(p) else {}
    return _KTABLE


def budget_K(params, ties, Kmax, cap=None):
    """largest K <= Kmax whose measured path count (tools/calibrate.py, committed table) is under the tier's cap"""
    from .runner import cfg_id
    t = _ktable().get(cfg_id(("GEN", params)), {}).get(ties)
    cap = cap or CAPS[_TIER][0 if ties == "forced" else 1]
    if not t:
        return min(Kmax, 4)
    best = 3
    for k, n in sorted(((k, n) for k, n in t.items() if k.isdigit()), key=lambda kv: int(kv[0])):
        if 0 <= n <= cap and int(k) <= Kmax:
            best = int(k)
    if best == 3 and t.get("3", 0) > 3 * cap:
        return None   # even three events exceed the budget of this tier: the row is left to the deeper tier
    return best


def combo_rows(K, include=None, exclude=(), skip=(), allow=(), mons=None, extra=None, ties="forced", raw=False, cap=None):
    """GEN rows for single features and feature pairs; `include`: at least one feature of the pair is in this set;
    `exclude`: features never used; `skip`: pairs (sets) left out; K is an upper limit, the row's K comes from the
    committed path-count table so that no sweep row exceeds the tier's path cap"""
    out = []
    skip = [set(x) for x in skip]
    allow = [set(x) for x in allow]
    for fs, params in _combos.pairs(include=include, exclude=exclude):
        fset = set(fs)
        bad = [x for x in (_F7 + _F10 + _F13) if x <= fset and x not in allow]
        if bad or any(x <= fset for x in skip):
            continue
        p = dict(params)
        if p.get("classes", 1) > 1:
            p["burst"] = 1
            p["first"] = 2
        if extra:
            p.update(extra)
        k = K if raw else budget_K(p, ties, K, cap)
        if k is None:
            continue
        r = row("GEN", k, **p)
        r["ties"] = ties
        if mons:
            r["mons"] = mons
        out.append(r)
    return out


def tie_combo_rows(K, include, **kw):
    """the same feature pairs with every date coincidence explored (ties=all)"""
    return combo_rows(K, include=include, ties="all", **kw)


CORE = "Simulation.event_and_return_nextnode find_next_active_node simulate_until_max_time ArrivalNode.have_event release_individual decide_baulk send_individual Node.accept release finish_service block_individual release_blocked_individual begin_service_if_possible_accept/_release/_change_shift update_next_event_date decide_next_event write_*_record ExitNode.accept".split(" ")


PROPS = {}


def prop(pid, **kw):
    PROPS[pid] = kw


def Z0(K):
    """time-zero row: inter-arrival samples >= 0, so arrivals (and whole deadlocks) at exactly t = 0 are inside the claim"""
    return [row("Q1", K, c=1, pos=False), row("Q1", K, c=2, pos=False, first=2), row("SL", K, pos=False, first=2), row("SL", K, pos=False, capacitated=True, pre="resume", first=2),
            row("PS", K, pos=False, capacity=1, first=2), row("PS", K, pos=False), row("S1", K, pos=False, p=0.5)]


def Z0q(K):
    """time-zero rows on ordinary nodes (no slotted / PS node, which run into F11): arrivals, service starts, pre-emptions,
    blockages and reneges may all happen at exactly t = 0"""
    return [row("Q1", K, c=1, pos=False), row("Q1", K, c=2, pos=False, first=2), row("S1", K, pos=False, p=0.5), row("T2", K, pos=False, first=2),
            row("P1", K - 1, c=1, pre="resume", pos=False), row("RN", K, pos=False, first=2), row("BK", K - 1, kind="sym", pos=False)]


# C01 ------------------------------------------------------------------------------------------------
prop("C01", mons=["C01"],
     quick=lambda: plain(5) + blocking(5) + priorities(5) + preemption(5) + schedules(5) + slotted(4) + reneging(5) + baulking(4)
     + classchange(5) + routing(5) + ps(5) + with_ties([row("Q1", 5, c=1), row("T2", 5), row("L2", 4, first=[2, 2], burst=1), row("RN", 5)])
     + combo_rows(5, include={"renege", "jockey", "jockeyfull", "renege2", "pre_reroute", "sc_reroute", "batch", "baulk", "ccwait", "ps", "slcap", "selfloop", "loop", "jsq"})
     + tie_combo_rows(4, {"renege", "jockeyfull", "pre_reroute", "batch", "sc_reroute"})
     + Z0q(4),
     thorough=lambda: bump(plain(5) + blocking(5) + priorities(5) + preemption(5) + schedules(5) + slotted(4) + reneging(5) + baulking(4)
                           + classchange(5) + routing(5) + ps(5), 1)
     + with_ties(plain(5) + blocking(5) + priorities(5) + preemption(5) + schedules(5) + reneging(5) + routing(5) + ps(5), -1)
     + combo_rows(6)
     + tie_combo_rows(5, {"renege", "jockey", "jockeyfull", "renege2", "pre_reroute", "batch", "sc_reroute", "baulk", "slcap"})
     + combo_rows(6, exclude=("c2", "cinf", "ps", "sl", "slcap", "offset"), extra={"c1": 2}, cap=1500)
     + Z0q(6),
     vacuity=["c01_in_nodes", "c01_at_exit"],
     functions=CORE + ["Node.renege", "Node.reroute", "Node.preempt", "Node.change_priority_queue", "PSNode.*", "Node.slotted_service", "Node.change_shift"])

# C02 ------------------------------------------------------------------------------------------------
prop("C02", mons=["C02"],
     quick=lambda: plain(5) + blocking(5) + priorities(5) + preemption(5) + schedules(5) + slotted(4) + reneging(5) + baulking(4)
     + classchange(5) + routing(4) + ps(5) + [row("SC", 7, pre="resume", blocked=True), row("SC", 6, pre="restart", blocked=True),
                                               row("RN", 4, prio=True, pre="resume"), row("T2", 5, prio=True)]
     + with_ties([row("Q1", 5, c=1), row("T2", 5), row("RN", 5), row("SC", 5)])
     + combo_rows(5, include={"sc", "sc_resume", "sc_restart", "sc_resample", "sc_reroute", "sl", "slcap", "renege", "jockey", "ps", "offset", "pre_resume", "pre_restart"}, allow=_F7 + _F10)
     + tie_combo_rows(4, {"renege", "sc", "sl", "pre_resume"}, allow=_F7 + _F10) + Z0(4),
     thorough=lambda: bump(plain(5) + blocking(5) + priorities(5) + preemption(5) + schedules(5) + slotted(4) + reneging(5) + baulking(4)
                           + classchange(5) + routing(4) + ps(5), 1)
     + [row("SC", 8, pre="resume", blocked=True), row("SC", 7, pre="restart", blocked=True), row("SC", 7, pre="resample", blocked=True),
        row("SC", 7, pre="reroute", blocked=True), row("RN", 5, prio=True, pre="resume"), row("RN", 5, prio=True, pre="restart"), row("T2", 6, prio=True)]
     + with_ties(plain(5) + blocking(5) + priorities(5) + preemption(5) + schedules(5) + reneging(5) + ps(5), -1)
     + combo_rows(6, allow=_F7 + _F10)
     + tie_combo_rows(5, {"renege", "jockey", "sc", "sc_resume", "sc_restart", "sl", "slcap", "pre_resume", "pre_restart", "ps"}, allow=_F7 + _F10) + Z0(6) + with_ties(Z0(4), 0),
     vacuity=["c02_service_records", "c02_interrupted_records", "c02_renege_records", "c02_terminal_records"],
     functions=CORE + ["Node.get_reneging_date", "Node.give_service_time_after_preemption", "Node.interrupt_service", "Node.begin_interrupted_individuals_service", "Node.wrap_up_servers"])

# C03 ------------------------------------------------------------------------------------------------
prop("C03", mons=["C03"],
     quick=lambda: plain(5) + blocking(5) + preemption(5) + schedules(5, (False, "resume", "reroute")) + reneging(5) + baulking(4)
     + classchange(5) + routing(5) + [row("SC", 6, pre="reroute", blocked=True), row("SC", 7, pre="resume", blocked=True, burst=3), row("SC", 7, pre="restart", blocked=True, burst=3),
                                      row("T2", 6, prio=True, c1=2, first=2, burst=1)] + with_ties([row("T2", 5), row("RN", 5, jockey=True)])
     + combo_rows(5, include={"pre_reroute", "sc_reroute", "sc_resume", "renege", "jockey", "baulk", "block", "ccafter", "jsq", "slcap"})
     + with_ties(preemption(5), -1) + tie_combo_rows(4, {"pre_reroute", "sc_reroute", "renege", "jockey"})
     + Z0q(4)
     + [row("RN", 5, jockey="alt", first=2, burst=2), row("RN", 4, jockey="alt", first=3), row("RN", 5, jockey="alt", c=2, first=3, burst=2)],
     thorough=lambda: bump(plain(5) + blocking(5) + preemption(5) + schedules(5) + reneging(5) + baulking(4) + classchange(5) + routing(5), 1)
     + with_ties(blocking(5) + preemption(5) + reneging(5) + routing(5), -1)
     + combo_rows(6)
     + with_ties(preemption(5), 0) + tie_combo_rows(5, {"pre_reroute", "sc_reroute", "sc_resume", "renege", "jockey", "jockeyfull", "baulk", "block"})
     + Z0q(6)
     + [row("RN", 5, jockey="alt", first=2, burst=2), row("RN", 4, jockey="alt", first=3), row("RN", 5, jockey="alt", c=2, first=3, burst=2)],
     vacuity=["c03_customers", "c03_chained"],
     functions=CORE + ["Node.write_individual_record", "Node.write_interruption_record", "Node.write_reneging_record", "Node.write_baulking_or_rejection_record", "Node.reset_individual_attributes", "Node.reroute"])

# C04 ------------------------------------------------------------------------------------------------
def c04_extra(K):
    return [dict(row("Q1", K, c=2, pos=False, first=2), mons=["C04", "C04Util"]), dict(row("Q1", K, c=1, pos=False), mons=["C04", "C04Util"]),
            dict(row("S1", K, c=2, cap_=1, pos=False, p=0.5), mons=["C04", "C04Util"]),
            row("SC", K + 4, pre="resume", blocked=True, burst=3), row("SC", K + 4, pre="restart", blocked=True, burst=3), row("SC", K, pre="resume", values=[2, 2], bounds=[1, 3], first=2),
            row("SC", K, pre="restart", values=[2, 1, 2], bounds=[1, 2, 3], first=3), row("SC", K + 2, blocked=True, burst=3), row("T2", K + 1, prio=True, c1=2, first=2, burst=1)]


prop("C04", mons=["C04"],
     quick=lambda: [row("Q1", 6, c=1), row("Q1", 5, c=2), row("Q1", 5, c=2, first=3)] + blocking(5) + priorities(5) + preemption(5) + schedules(5) + c04_extra(5)
     + [dict(r, mons=["C04", "C04Util"]) for r in [row("Q1", 5, c=2), row("T2", 5), row("SC", 5), row("P1", 5, c=1), row("L2", 4, first=[2, 2], burst=1)]]
     + with_ties([row("Q1", 5, c=2), row("T2", 5)])
     + combo_rows(5, include={"c2", "sc", "sc_resume", "sc_restart", "sc_resample", "sc_reroute", "pre_resume", "pre_restart", "pre_reroute", "block"}, exclude=("ps", "cinf", "sl", "slcap"), allow=_F13)
     + combo_rows(5, include={"sc_resume", "sc_restart", "pre_resume", "pre_restart", "pre_reroute", "block"}, exclude=("c2", "cinf", "ps", "sl", "slcap", "offset"), extra={"c1": 2}, cap=250, allow=_F13),
     thorough=lambda: bump([row("Q1", 6, c=1), row("Q1", 5, c=2), row("Q1", 5, c=2, first=3)] + blocking(5) + priorities(5) + preemption(5) + schedules(5), 1)
     + [dict(r, mons=["C04", "C04Util"]) for r in [row("Q1", 6, c=2), row("T2", 6), row("SC", 6), row("SC", 6, offset=0.5, first=2), row("P1", 6, c=1), row("L2", 5, first=[2, 2], burst=1), row("S1", 6, c=2, cap_=1, first=2)]]
     + with_ties(blocking(5) + preemption(5) + schedules(5), -1)
     + combo_rows(6, exclude=("ps", "cinf", "sl", "slcap"), allow=_F13)
     + combo_rows(6, exclude=("c2", "cinf", "ps", "sl", "slcap", "offset"), extra={"c1": 2}, cap=2000, allow=_F13),
     vacuity=["c04_in_service", "c04_kept_server", "c04_interval_pairs", "c04_util_checked"],
     functions=["Node.attach_server", "Node.detatch_server", "Node.find_free_server", "Node.preempt", "Node.take_servers_off_duty", "Node.kill_server", "Node.add_new_servers", "Node.wrap_up_servers", "Node.find_server_utilisation"] + CORE)

# C05 ------------------------------------------------------------------------------------------------
prop("C05", mons=["C05"],
     quick=lambda: plain(5) + blocking(5) + priorities(5) + preemption(5) + schedules(5) + reneging(5) + classchange(5)
     + [row("Q1", 5, c=1, discipline="SIRO", first=2), row("RN", 4, blockedinto=True), row("RN", 5, blockedinto=True, first=2, burst=2),
        row("SC", 5, pre="resume", values=[2, 2], bounds=[1, 3], first=2), row("SC", 5, pre="restart", values=[2, 1, 3], bounds=[1, 2, 3], first=3),
        row("SC", 5, pre="resample", values=[3, 0, 3], bounds=[1, 2, 3], first=3), row("SC", 8, pre="restart", blocked=True, burst=3)]
     + with_ties([row("Q1", 5, c=2), row("T2", 5), row("SC", 5, pre="resume")])
     + combo_rows(5, include={"c2", "sc", "sc_resume", "sc_restart", "sc_resample", "pre_resume", "pre_restart", "renege", "ccwait", "lifo", "siro", "block"}, exclude=("ps", "cinf", "sl", "slcap"))
     + tie_combo_rows(4, {"sc_resume", "renege", "pre_resume", "block"})
     + combo_rows(5, include={"sc_resume", "sc_restart", "pre_resume", "pre_restart", "renege", "lifo", "siro", "block", "ccwait"}, exclude=("c2", "cinf", "ps", "sl", "slcap", "offset"), extra={"c1": 2}, cap=250)
     + Z0q(4)
     + [row("GEN", 6, topo="self", p=0.5, cap1=1, classes=2, prio=True, pre="reroute", burst=1, first=2), row("GEN", 6, topo="loop", p=0.5, cap1=1, cap2=1, classes=2, prio=True, pre="reroute", burst=1, first=2)],
     thorough=lambda: bump(plain(5) + blocking(5) + priorities(5) + preemption(5) + schedules(5) + reneging(5) + classchange(5), 1)
     + [row("Q1", 6, c=1, discipline="SIRO", first=2), row("RN", 5, blockedinto=True)]
     + with_ties(plain(5) + blocking(5) + preemption(5) + schedules(5) + reneging(5), -1)
     + combo_rows(6, exclude=("ps", "cinf", "sl", "slcap"))
     + tie_combo_rows(5, {"c2", "sc", "sc_resume", "sc_restart", "pre_resume", "pre_restart", "renege", "block", "lifo"}, exclude=("ps", "cinf", "sl", "slcap"))
     + combo_rows(6, exclude=("c2", "cinf", "ps", "sl", "slcap", "offset"), extra={"c1": 2}, cap=2000)
     + Z0q(6)
     + [row("GEN", 6, topo="self", p=0.5, cap1=1, classes=2, prio=True, pre="reroute", burst=1, first=2), row("GEN", 6, topo="loop", p=0.5, cap1=1, cap2=1, classes=2, prio=True, pre="reroute", burst=1, first=2)],
     vacuity=["c05_zero_wait", "c05_waiting_seen", "c05_start_on_freed_server"],
     functions=["Node.begin_service_if_possible_accept", "Node.begin_service_if_possible_release", "Node.begin_service_if_possible_change_shift", "Node.begin_interrupted_individuals_service", "Node.choose_next_customer", "Node.change_customer_class_while_waiting"] + CORE)

# C06 ------------------------------------------------------------------------------------------------
def cap_rows(K):
    return [row("Q1", K, c=1, cap_=0), row("Q1", K, c=1, cap_=1, syscap=2, batch=[0, 1, 2, 3]), row("Q1", K, c=2, cap_=1, syscap=1, first=2),
            row("Q1", K, c=1, cap_=1, batch=[1, 3]), row("Q1", K, c=2, cap_=0, syscap=3, batch=[2, 3]),
            row("T2", K, caps=[1, 0], a2=True), row("T2", K, c1=2, caps=[1, 1], a2=True, first=3), row("T2", K, caps=[0, 0], a2=True),
            row("L2", K - 1, caps=[1, 1]), row("L2", K, caps=[0, 1], first=[2, 2], burst=2), row("S1", K, cap_=1, first=3), row("BK", K, kind="sym", cap_=1, first=2),
            row("RN", K, syscap=2), row("RN", K, c=1, cap_=1, first=2), row("RN", K, c=2, syscap=3, first=3), row("P1", K - 1, c=1, pre="resume", first=2),
            row("GEN", K, ccwait=True, classes=2, prio=True, cap1=1, burst=1, first=2), row("GEN", K, ccwait=True, classes=2, prio=True, cap1=2, burst=2, first=2, syscap=3),
            row("GEN", K - 1, ccwait=True, classes=2, prio=True, pre="resume", cap1=1, burst=1, first=2)]


prop("C06", mons=["C06"],
     quick=lambda: cap_rows(5) + with_ties(cap_rows(5)[:6], -1)
     + combo_rows(5, include={"cap1", "syscap", "batch", "block1"}, exclude=("sc", "sc_resume", "sc_restart", "sc_resample", "sc_reroute", "sl", "slcap", "pre_reroute", "jockey"))
     + Z0q(4),
     thorough=lambda: bump(cap_rows(5), 1) + with_ties(cap_rows(5), 0)
     + combo_rows(6, include={"cap1", "syscap", "batch", "block1", "block", "selfloop", "loop"}, exclude=("sc", "sc_resume", "sc_restart", "sc_resample", "sc_reroute", "sl", "slcap", "pre_reroute", "jockey"))
     + Z0q(6),
     vacuity=["c06_rejections", "c06_admitted"],
     functions=["ArrivalNode.release_individual", "Simulation.number_of_individuals", "Node.__init__ (node_capacity)", "Node.finish_service", "ArrivalNode.have_event", "ArrivalNode.batch_size"])

# C07 ------------------------------------------------------------------------------------------------
def c07_rows(K):
    return blocking(K) + [row("T2", K, prio=True), row("T2", K, c1=3, c2=2, caps=["inf", 0], first=3, burst=1), row("SC", K + 1, blocked=True),
                          row("L2", K, c=[2, 1], caps=[0, 0], first=[2, 1], burst=1), row("RN", K - 1, blockedinto=True), row("CCa", K, nodes=2, blocking=True),
                          row("L2", K - 1, classes=2), row("T2", K + 1, prio=True, c1=3, first=2, burst=1), row("T2", K + 1, prio=True, c1=2, c2=1, first=3, burst=1),
                          row("RN", K, blockedinto=True, first=2, burst=2), row("FK", K + 1, firstA=2, firstB=2), row("SCD", K + 2, burst=2), row("SCD", K + 2, burst=2, c1=2, first=2)] + ([row("FK", K + 1)] if K > 5 else [])


prop("C07", mons=["C07"],
     quick=lambda: c07_rows(5) + with_ties([row("T2", 5), row("T2", 5, c1=3, first=3, burst=1), row("L2", 4), row("S1", 5)])
     + combo_rows(5, include={"block", "block1", "selfloop", "loop"}, skip=_BLOCKPRE)
     + [dict(row("RN", 5, blockedinto=True, c=2, cap2=2, first=3, first1=2, burst=1), ties="all")] + tie_combo_rows(4, {"block", "block1"}, skip=_BLOCKPRE),
     thorough=lambda: bump(c07_rows(5), 1) + with_ties(c07_rows(5), -1)
     + combo_rows(6, include={"block", "block1", "selfloop", "loop"}, skip=_BLOCKPRE)
     + [dict(row("RN", 6, blockedinto=True, c=2, cap2=2, first=3, first1=2, burst=1), ties="all")] + tie_combo_rows(5, {"block", "block1", "selfloop", "loop"}, skip=_BLOCKPRE)
     + combo_rows(6, include={"block", "block1", "selfloop", "loop"}, skip=_BLOCKPRE, exclude=("c2", "cinf", "ps", "sl", "slcap", "offset"), extra={"c1": 2}, cap=2000),
     vacuity=["c07_blockages", "c07_unblockings", "c07_blocked_seen"],
     functions=["Node.finish_service", "Node.block_individual", "Node.release", "Node.release_blocked_individual", "Node.update_next_end_service_with_server", "Node.renege"])

# C08 ------------------------------------------------------------------------------------------------
def c08_rows(K):
    return [row("Q1", K, c=1, discipline="FIFO", first=3), row("Q1", K, c=1, discipline="LIFO", first=3), row("Q1", K - 1, c=1, discipline="SIRO", first=3),
            row("Q1", K, c=2, discipline="LIFO", first=4), row("P1", K, c=1), row("P1", K, c=1, discipline="LIFO", first=2), row("P1", K - 1, c=2, classes=3, first=2),
            row("P1", K - 1, c=1, discipline="SIRO", first=2)] + preemption(K) + [row("SC", K, first=3), row("SC", K, prio=True, pre="resume"), row("SC", K - 1, prio=True),
            row("T2", K, c1=3, first=3, burst=1), row("T2", K - 1, prio=True), row("CCw", K - 1, burst=2), row("CCw", K - 1, prio=True, burst=2), row("SL", K - 1, first=3),
            row("RN", K, c=1, first=3), row("SC", K, discipline="LIFO", first=4), row("SC", K, discipline="LIFO", first=3, pre="resume"), row("SC", K, discipline="SIRO", first=3),
            row("T2", K + 1, prio=True, c1=1, first=3, burst=1), row("SC", K, discipline="LIFO", values=[0, 1], bounds=[1, 4], first=3),
            row("GEN", K, sched=["sl", False, False], classes=2, prio=True, discipline="LIFO", burst=1, first=2), row("GEN", K, sched=["sl", False, False], classes=2, prio=True, discipline="SIRO", burst=1, first=2),
            row("GEN", K, sched=["sl", True, "resume"], classes=2, prio=True, discipline="LIFO", burst=1, first=3), row("GEN", K, sched=["sl", False, False], discipline="LIFO", burst=2, first=3),
            row("GEN", K, sched=["sl", False, False], classes=2, prio=True, burst=1, first=3)]


prop("C08", mons=["C08"],
     quick=lambda: c08_rows(5) + with_ties([row("Q1", 5, c=1, first=3), row("P1", 5, c=1)])
     + combo_rows(5, include={"lifo", "siro", "prio", "pre_resume", "pre_restart", "pre_resample", "pre_reroute"}, exclude=("ps", "cinf"))
     + combo_rows(5, include={"lifo", "siro", "prio", "pre_resume", "pre_restart", "pre_resample", "pre_reroute"}, exclude=("c2", "cinf", "ps", "sl", "slcap", "offset"), extra={"c1": 2}, cap=250)
     + Z0q(4),
     thorough=lambda: bump(c08_rows(5), 1) + with_ties(c08_rows(5), -1)
     + combo_rows(6, exclude=("ps", "cinf"))
     + combo_rows(6, exclude=("c2", "cinf", "ps", "sl", "slcap", "offset"), extra={"c1": 2}, cap=2000)
     + Z0q(6),
     vacuity=["c08_choices", "c08_starts", "c08_real_choice", "c08_pairs"],
     functions=["Node.choose_next_customer", "disciplines.FIFO", "disciplines.LIFO", "disciplines.SIRO", "Node.begin_service_if_possible_*", "Node.slotted_service", "Node.decide_preempt"])

# C09 ------------------------------------------------------------------------------------------------
def c09_rows(K):
    return routing(K) + [row("CCa", K), row("CCa", K, nodes=2, prio=True), row("CCa", K, order="rev"), row("CCa", K, nodes=2, order="rev", prio=True), row("T2", K), row("L2", K - 1, p=0.5), row("S1", K, p=0.5),
                         row("JSQP", K, burst=1, first=2), row("JSQP", K - 1, burst=2), row("P1", K - 1, c=1, pre="reroute", to=2),
                         row("JSQP", K, burst=1, first=2, pre="resume"), row("JSQP", K, burst=1, pre="restart", tie="random"), row("RT", K, router="jsq", c=[1, 2, 1], first=4, tie="order"),
                         row("RT", K, router="jsq", c=[2, 2, 1], first=4, burst=1)]


prop("C09", mons=["C09"],
     quick=lambda: c09_rows(5) + [crow("custom:unit_random_choice", 1, weighted=True), crow("custom:unit_random_choice", 1, weighted=False)]
     + with_ties([row("RT", 5, router="jsq"), row("RT", 5, router="prob0")])
     + combo_rows(5, include={"jsq", "ccafter", "selfloop", "loop", "pre_reroute", "sc_reroute"}),
     thorough=lambda: bump(c09_rows(5), 1) + [crow("custom:unit_random_choice", 1, weighted=True), crow("custom:unit_random_choice", 1, weighted=False),
                                              row("JSQP", 8, burst=1, first=2), row("JSQP", 7, burst=2, first=2)] + with_ties(c09_rows(5), -1)
     + combo_rows(6, include={"jsq", "ccafter", "selfloop", "loop", "pre_reroute", "sc_reroute", "prio", "ccwait", "block", "block1"}),
     vacuity=["c09_prob", "c09_prob_with_zero_entry", "c09_direct", "c09_leave", "c09_cycle", "c09_jsq", "c09_lb", "c09_process", "c09_flex", "c09_class_changes", "c09_unit_sampled", "c09_unit_uniform", "c09_jsq_unequal"],
     functions=["auxiliary.random_choice", "routing.*.next_node", "Node.next_node", "Node.next_node_for_rerouting", "Node.change_customer_class"],
     kernels=["k_random_choice.py"])

# C10 ------------------------------------------------------------------------------------------------
def c10_rows(K):
    return [row("Q1", K, c=1), row("Q1", K - 1, c=2, batch=[0, 1, 2, 3]), row("Q1", K - 1, c="inf", batch=[1, 2]), row("Q1", K, c=2, batch=[0, 2], burst=2), row("P1", K, c=1), row("P1", K - 1, c=2, classes=3),
            row("T2", K, a2=True), row("T2", K, prio=True), row("L2", K - 1, p=0.5), row("SC", K), row("RN", K), row("RT", K, router="jsq"),
            row("T2", K - 1, shared=True, caps=["inf", "inf"]), row("T2", K, shared=True, caps=["inf", "inf"], burst=2)]


def c10_validity():
    return [crow("custom:validity", 4, kind="arrival"), crow("custom:validity", 4, kind="arrival", after=2), crow("custom:validity", 4, kind="service"),
            crow("custom:validity", 5, kind="service", after=1, c=2), crow("custom:validity", 3, kind="batch"),
            crow("custom:validity", 3, kind="arrival", symbolic=False), crow("custom:validity", 3, kind="service", symbolic=False)]


prop("C10", mons=["C10"],
     quick=lambda: c10_rows(5) + c10_validity() + with_ties([row("Q1", 5, c=2, batch=[0, 1, 2])])
     + combo_rows(5, include={"batch", "c2", "cinf", "prio", "sc", "block", "lifo", "siro", "cap1"}, exclude=("pre_resume", "pre_restart", "pre_resample", "pre_reroute", "sc_resume", "sc_restart", "sc_resample", "sc_reroute", "sl", "slcap", "ccafter", "ccwait", "ps"))
     + [r for r in Z0q(4) if r["cfg"][0] != "P1"],
     thorough=lambda: bump(c10_rows(5), 1) + c10_validity() + with_ties(c10_rows(5), -1)
     + combo_rows(6, exclude=("pre_resume", "pre_restart", "pre_resample", "pre_reroute", "sc_resume", "sc_restart", "sc_resample", "sc_reroute", "sl", "slcap", "ccafter", "ccwait", "ps"))
     + [r for r in Z0q(6) if r["cfg"][0] != "P1"],
     vacuity=["c10_arrival_events", "c10_services", "c10_nonunit_batches", "c10_validity_raised", "c10_validity_samples"],
     functions=["ArrivalNode.have_event", "ArrivalNode.inter_arrival", "ArrivalNode.batch_size", "ArrivalNode.initialise_event_dates_dict", "Node.get_service_time", "Distribution._sample"])

# C11 ------------------------------------------------------------------------------------------------
def c11_rows(K):
    return preemption(K) + [row("P1", K - 1, c=2, pre="resample", first=2), row("P1", K - 1, c=1, pre="resume", classes=3), row("P1", K - 1, c=2, pre="restart", classes=3),
                            row("P1", K, c=1, pre="resume", first=2), row("CCw", K - 1, prio=True, pre="resume", burst=2)]


prop("C11", mons=["C11"],
     quick=lambda: c11_rows(5) + with_ties([row("P1", 5, c=1, pre="resume"), row("P1", 4, c=2, pre="restart")])
     + combo_rows(5, include={"pre_resume", "pre_restart", "pre_resample", "pre_reroute"}, exclude=("ccafter", "sc_resume", "sc_restart", "sc_resample", "sc_reroute"), skip=_BLOCKPRE)
     + [row("P1", 6, c=2, pre="resume", discipline="LIFO", first=2), row("P1", 4, c=2, pre="resample", discipline="SIRO", first=2)] + [r for r in combo_rows(5, include={"pre_resume", "pre_restart", "pre_resample", "pre_reroute"}, exclude=("ccafter", "sc_resume", "sc_restart", "sc_resample", "sc_reroute", "c2", "cinf", "ps", "sc", "sl", "slcap", "offset"), skip=_BLOCKPRE, extra={"c1": 2}) if r["cfg"][1].get("discipline") or r["cfg"][1].get("ccwait") or r["cfg"][1].get("batch")]
     + Z0q(4),
     thorough=lambda: bump(c11_rows(5), 1) + with_ties(c11_rows(5), -1)
     + combo_rows(6, include={"pre_resume", "pre_restart", "pre_resample", "pre_reroute"}, exclude=("ccafter", "sc_resume", "sc_restart", "sc_resample", "sc_reroute"), skip=_BLOCKPRE)
     + [row("P1", 6, c=2, pre="resume", discipline="LIFO", first=2), row("P1", 6, c=2, pre="restart", discipline="LIFO", first=2), row("P1", 5, c=2, pre="resample", discipline="SIRO", first=2)] + [r for r in combo_rows(5, include={"pre_resume", "pre_restart", "pre_resample", "pre_reroute"}, exclude=("ccafter", "sc_resume", "sc_restart", "sc_resample", "sc_reroute", "c2", "cinf", "ps", "sc", "sl", "slcap", "offset"), skip=_BLOCKPRE, extra={"c1": 2}) if r["cfg"][1].get("discipline") or r["cfg"][1].get("ccwait") or r["cfg"][1].get("batch")]
     + Z0q(6),
     vacuity=["c11_preemptions", "c11_victim_choice", "c11_wait_and_serve", "c11_resume_completed", "c11_restart_completed", "c11_resample_completed"],
     functions=["Node.decide_preempt", "Node.preempt", "Node.give_individual_a_service_time", "Node.give_service_time_after_preemption", "Node.reroute"])

# C12 ------------------------------------------------------------------------------------------------
def c12_rows(K):
    return schedules(K) + slotted(K) + [row("SC", K, prio=True, pre="resume"), row("SC", K, values=[2, 0, 1, 3], bounds=[1, 2, 3, 4], pre="resample"),
                                         row("SC", K, values=[0, 2], bounds=[1, 3], first=2), row("SL", K, slots=[1.0, 2.0], sizes=[2, 1], capacitated=True, pre="resample", first=3),
                                         row("SC", K, symoff=True), row("SC", K + 1, blocked=True)]


def c12_units():
    return [crow("custom:unit_schedule", 1, kind="schedule", n=3, cycles=3), crow("custom:unit_schedule", 1, kind="schedule", n=2, cycles=4),
            crow("custom:unit_schedule", 1, kind="slotted", n=3, cycles=3), crow("custom:unit_schedule", 1, kind="schedule", n=1, cycles=4)]


prop("C12", mons=["C12"],
     quick=lambda: c12_rows(5) + c12_units() + with_ties([row("SC", 5), row("SC", 5, pre="resume"), row("SL", 5)])
     + combo_rows(5, include={"sc", "sc_resume", "sc_restart", "sc_resample", "sc_reroute", "sl", "slcap", "offset"})
     + [row("SC", 9, pre="resample", blocked=True, burst=3), row("SC", 9, pre="restart", blocked=True, burst=3), row("SC", 7, blocked=True, burst=3)],
     thorough=lambda: bump(c12_rows(5), 2) + c12_units() + with_ties(c12_rows(5), 0)
     + combo_rows(7, include={"sc", "sc_resume", "sc_restart", "sc_resample", "sc_reroute", "sl", "slcap", "offset"})
     + [row("SC", 9, pre="resample", blocked=True, burst=3), row("SC", 9, pre="restart", blocked=True, burst=3), row("SC", 7, blocked=True, burst=3)],
     vacuity=["c12_onduty_checks", "c12_shift_changes", "c12_overtime_services", "c12_shift_interruptions", "c12_interrupted_restarts", "c12_slots", "c12_slot_starts", "c12_unit_shifts", "c12_unit_slots"],
     functions=["Schedule.initialise", "Schedule.get_schedule_generator", "Schedule.get_next_shift", "Slotted.*", "Node.change_shift", "Node.take_servers_off_duty", "Node.add_new_servers", "Node.kill_server", "Node.begin_service_if_possible_change_shift", "Node.begin_interrupted_individuals_service", "Node.slotted_service", "Node.find_number_of_slotted_services", "Node.interrupt_slotted_services"])

# C13 ------------------------------------------------------------------------------------------------
def c13_rows(K):
    return reneging(K) + baulking(K) + [row("RN", K - 1, blockedinto=True), row("RN", K - 1, prio=True, pre="resume"), row("BK", K, kind="sym", cap_=1, first=2),
                                        row("SL", K - 1, reneging=True, first=2), row("SL", K - 1, reneging=True, capacitated=True, first=3), row("RN", K, blockedinto=True, first=2, burst=2),
                                        row("RN", K, syscap=2)]


prop("C13", mons=["C13"],
     quick=lambda: c13_rows(5) + with_ties([row("RN", 5), row("RN", 5, jockey=True), row("BK", 4, kind="sym")])
     + combo_rows(5, include={"renege", "jockey", "jockeyfull", "renege2", "baulk"}, allow=_F10)
     + tie_combo_rows(4, {"renege", "jockey"}, allow=_F10)
     + Z0q(4),
     thorough=lambda: bump(c13_rows(5), 1) + with_ties(c13_rows(5), -1)
     + combo_rows(6, include={"renege", "jockey", "jockeyfull", "renege2", "baulk"}, allow=_F10)
     + tie_combo_rows(5, {"renege", "jockey", "jockeyfull", "renege2", "baulk"}, allow=_F10)
     + Z0q(6),
     vacuity=["c13_reneges", "c13_jockeys", "c13_waiting_with_patience", "c13_baulks", "c13_joins"],
     functions=["Node.get_reneging_date", "Node.update_next_renege_time", "Node.decide_next_event", "Node.renege", "ArrivalNode.decide_baulk"])

# C14 ------------------------------------------------------------------------------------------------
def mc_rows(K):
    out = []
    for method in ("Complete", "Finish", "Arrive", "Accept"):
        out.append(row("MC", K + 1, base="Q1", n=2, method=method, c=1, cap_=1, batch=[0, 1, 2]))
        out.append(row("MC", K, base="RN", n=2, method=method))
        out.append(row("MC", K, base="BK", n=3, method=method, kind="sym"))
        out.append(row("MC", K, base="T2", n=1, method=method))
    return out


def c14_rows(K):
    base = plain(K) + blocking(K) + priorities(K) + preemption(K) + schedules(K) + slotted(K - 1) + reneging(K) + baulking(K - 1) + classchange(K) + routing(K - 1) + ps(K)
    return base + mc_rows(K) + [row("CCw", K - 1, nodes=2), row("CCw", K - 1, nodes=2, prio=True, pre="restart", burst=2), row("SC", K + 1, blocked=True, pre="restart"),
                                row("DL", K - 1, base="S1", pos=False, p=1.0, c=1, cap_=0), row("Q1", K - 1, c=1, pos=False), row("S1", K - 1, pos=False, p=0.5)]


prop("C14", mons=["C14"], exc_is_violation=True,
     quick=lambda: c14_rows(5) + with_ties([row("Q1", 5, c=1), row("T2", 5), row("MC", 5, base="Q1", n=2, method="Finish", c=1)])
     + combo_rows(4, allow=_F7 + _F10 + _F13),
     thorough=lambda: bump(c14_rows(5), 1) + with_ties(c14_rows(5), -1)
     + combo_rows(6, allow=_F7 + _F10 + _F13),
     vacuity=["c14_returns_T", "c14_returns_n"],
     functions=["Simulation.simulate_until_max_time", "Simulation.simulate_until_max_customers", "create_network", "validify_dictionary", "Simulation.__init__"] + CORE)

# C15 ------------------------------------------------------------------------------------------------
C15_KINDS = ["mm1", "cycle", "sequential", "stateful", "prob", "schedule", "slotted", "process", "siro", "jsq", "schedule_offset", "slotted_offset", "classchange", "baulk", "flex_jsq"]
prop("C15", mons=[],
     quick=lambda: [crow("custom:reproducibility", 6 if k == "flex_jsq" else 4, ties="forced", kind=k) for k in C15_KINDS]
     + [crow("custom:reproducibility", 3, ties="forced", kind=k, between=True) for k in ("cycle", "sequential", "prob")],
     thorough=lambda: [crow("custom:reproducibility", 5, ties="forced", kind=k) for k in C15_KINDS]
     + [crow("custom:reproducibility", 4, ties="forced", kind=k, between=True) for k in C15_KINDS]
     + [crow("custom:reproducibility", 3, ties="all", kind=k) for k in C15_KINDS],
     vacuity=["c15_triples", "c15_records_compared"],
     functions=["ciw.seed", "Simulation.__init__ (find_*_dists deep copies, find_and_initialise_routers)", "routing.Cycle", "routing.ProcessBased", "dists.Sequential", "Schedule.initialise", "Slotted.initialise"],
     assumptions=["the seeded generator is an arbitrary but fixed stream: draw i of the process after seed() made by source S is the symbol S@i", "numpy-backed distributions and the Mersenne Twister itself are not exercised"])

# C16 ------------------------------------------------------------------------------------------------
C16_BASES = [("RT", {"router": "cycle", "burst": 3}, 6), ("RT", {"router": "process", "burst": 2}, 4), ("RT", {"router": "jsq", "burst": 2}, 6), ("SL", {"burst": 2}, 5), ("CCa", {"burst": 2}, 4),
             ("Q1", {"c": 1, "burst": 2}, 7), ("Q1", {"c": 2, "burst": 2, "first": 2}, 7), ("T2", {"burst": 2}, 7), ("P1", {"c": 1, "burst": 1}, 7), ("SC", {"burst": 2}, 7),
             ("RN", {"burst": 2}, 7), ("Q1", {"c": "inf", "burst": 2}, 7), ("P1", {"c": 1, "pre": "resume", "burst": 1}, 7), ("L2", {"burst": 1, "p": 0.5}, 5)]
C16_DEEP = [("Q1", {"c": 1, "burst": 3}), ("Q1", {"c": 2, "burst": 3}), ("T2", {"burst": 3}), ("T2", {"burst": 1, "first": 3, "c1": 3}), ("SC", {"burst": 3}),
            ("SC", {"burst": 2, "pre": "resume"}), ("RN", {"burst": 3}), ("P1", {"c": 1, "burst": 2})]
prop("C16", mons=[],
     quick=lambda: [crow("custom:pause_resume", k, ties="forced", base=b, params=p) for b, p, k in C16_BASES]
     + [crow("custom:pause_resume", 3, ties="forced", base="Q1", params={"c": 1})],
     thorough=lambda: [crow("custom:pause_resume", k, ties="forced", base=b, params=p) for b, p, k in C16_BASES]
     + [crow("custom:pause_resume", 9, ties="forced", base=b, params=p) for b, p in C16_DEEP if b != "SC"] + [crow("custom:pause_resume", 4, ties="forced", base="Q1", params={"c": 1})]
     + [crow("custom:pause_resume", k - 1, ties="forced", base=b, params=p, splits=2) for b, p, k in C16_BASES if b in ("Q1", "T2", "P1", "RN")],
     vacuity=["c16_pairs", "c16_records_compared", "c16_utilisation_compared"],
     functions=["Simulation.simulate_until_max_time (re-entry)", "Simulation.wrap_up_servers", "Node.wrap_up_servers", "Node.find_server_utilisation"],
     assumptions=["tie-free runs only (the property excludes coinciding events): ties=forced"])

# C17 ------------------------------------------------------------------------------------------------
TRACKERS = ["SystemPopulation", "NodePopulation", "NodePopulationSubset", "GroupedNodePopulation", "NodeClassMatrix", "NaiveBlocking", "MatrixBlocking"]


def c17_rows(K):
    out = []
    for t in TRACKERS:
        out.append(row("TR", K, base="T2", tracker=t, c1=2, first=2))
        out.append(row("TR", K - 1, base="L2", tracker=t, caps=[0, 0], p=0.5, first=[2, 1], burst=1))
    for t in ("SystemPopulation", "NodePopulation", "NodeClassMatrix", "NaiveBlocking", "MatrixBlocking"):
        out.append(row("TR", K, base="CCa", tracker=t, nodes=2, blocking=True))
        out.append(row("TR", K - 1, base="RN", tracker=t, blockedinto=True))
    for t in ("SystemPopulation", "NodeClassMatrix", "GroupedNodePopulation1"):
        out.append(row("TR", K - 1, base="CCw", tracker=t, burst=2))
        out.append(row("TR", K, base="P1", tracker=t, c=1, pre="resume"))
        out.append(row("TR", K, base="RN", tracker=t))
    out.append(row("TR", K, base="P1", tracker="NodePopulation", c=1, pre="reroute", to=2))
    out.append(row("TR", K, base="T2", tracker="MatrixBlocking", c1=3, first=3, burst=1))
    out.append(row("TR", K + 2, base="FK", tracker="MatrixBlocking", c1=4, firstA=2, firstB=2, c2=0))
    if K > 5:
        for t in ("NaiveBlocking", "NodeClassMatrix", "GroupedNodePopulation3"):
            out.append(row("TR", K + 1, base="FK", tracker=t))
    return out


def c17_units():
    return [crow("custom:unit_state_probabilities", 1, n=2), crow("custom:unit_state_probabilities", 1, n=3), crow("custom:unit_state_probabilities", 1, n=4)]


prop("C17", mons=["C17"],
     quick=lambda: c17_rows(5) + c17_units(),
     thorough=lambda: bump(c17_rows(5), 1) + c17_units() + [crow("custom:unit_state_probabilities", 1, n=5)] + with_ties(c17_rows(5), -1),
     vacuity=["c17_state_checks", "c17_histories", "c17_unit_windows", "c17_unit_states"],
     functions=["trackers.*.change_state_accept/_block/_release/_renege/_classchange", "StateTracker.timestamp", "StateTracker.state_probabilities", "trackers.*.hash_state"])

# C18 ------------------------------------------------------------------------------------------------
def c18_rows(K):
    return [row("DL", K, base="L2", caps=[0, 0]), row("DL", K, base="L2", caps=[0, 0], p=0.5), row("DL", K + 1, base="L2", caps=[1, 1], first=[2, 2]),
            row("DL", K + 1, base="S1", p=1.0, c=2, cap_=0), row("DL", K + 1, base="S1", p=0.5, c=1, cap_=1, first=2), row("DL", K, base="L3", streams=2),
            row("DL", K + 1, base="L3", streams=1, first=3), row("DL", K, base="L2", c=[2, 1], caps=[0, 0], first=[2, 1]), row("DL", K - 1, base="L2", classes=2, caps=[0, 0]),
            row("DL", K, base="T2", caps=[0, 0], a2=True), row("DL", K, base="L2", caps=[0, 0], tracker="MatrixBlocking"),
            row("DL", K + 1, base="DL3"), row("DL", K + 1, base="DL3", c=[2, 2, 1], first=[2, 2, 1]), row("DL", K + 1, base="L3", streams=3, burst=1)] + ([row("DL", K + 1, base="DL3", c=[3, 1, 1], first=[3, 1, 1]), row("DL", K + 1, base="FK")] if K > 5 else [])


prop("C18", mons=["C18"],
     quick=lambda: c18_rows(5) + with_ties([row("DL", 4, base="L2", caps=[0, 0]), row("DL", 5, base="S1", p=1.0, c=2, cap_=0)]),
     thorough=lambda: bump(c18_rows(5), 1) + with_ties(c18_rows(5), -1),
     vacuity=["c18_oracle_deadlocks", "c18_stops", "c18_blocked_states"],
     functions=["Simulation.simulate_until_deadlock", "deadlock.StateDigraph.*", "Node.block_individual", "Node.attach_server", "Node.detatch_server"])

# C19 ------------------------------------------------------------------------------------------------
def c19_rows(K):
    return ps(K) + [row("PS", K, capacity=2), row("PS", K, capacity=3, threshold=2, first=4), row("PS", K, capacity=1, first=2),
                    row("PS", K, capacity=1, threshold=2, first=2), row("PS", K, capacity=2, threshold=3, first=3), row("PS", K, capacity=2, threshold=4, first=4, burst=1),
                    row("PS", K + 1, capacity2=1, first=3, burst=1), row("PS", K + 1, capacity2=2, first=4, burst=1), row("PS", K, capacity=2, capacity2=1, first=3, burst=1)]


prop("C19", mons=["C19"],
     quick=lambda: c19_rows(5) + [crow("custom:ps_vs_fifo", 6, ties="forced", burst=2), crow("custom:ps_vs_fifo", 8, ties="forced", burst=3), crow("custom:ps_vs_fifo", 8, ties="forced", burst=1, first=3),
                               crow("custom:ps_vs_fifo", 4, ties="forced")] + with_ties([row("PS", 5), row("PS", 5, capacity=2, threshold=2, first=3)])
     + combo_rows(5, include={"ps"}),
     thorough=lambda: bump(c19_rows(5), 2) + [crow("custom:ps_vs_fifo", 6, ties="forced", burst=2), crow("custom:ps_vs_fifo", 8, ties="forced", burst=3), crow("custom:ps_vs_fifo", 10, ties="forced", burst=4), crow("custom:ps_vs_fifo", 10, ties="forced", burst=2, first=2),
                                      crow("custom:ps_vs_fifo", 8, ties="forced", burst=1, first=4), crow("custom:ps_vs_fifo", 5, ties="forced")] + with_ties(c19_rows(5), 0)
     + combo_rows(7, include={"ps"}),
     vacuity=["c19_departures", "c19_slowed", "c19_waiting_for_capacity", "c19_rel_pairs", "c19_rel_empties"],
     functions=["PSNode.update_all_service_end_dates", "PSNode.begin_service_if_possible_accept", "PSNode.begin_service_if_possible_release", "Node.release", "Node.update_next_end_service_without_server"])
