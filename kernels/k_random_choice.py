"""CrossHair contracts (Engine B, cross-check) on ciw.auxiliary.random_choice: symbolic probabilities and
CrossHair's own symbolic random.random().  The same obligations are decided for a grid of concrete
probability vectors by the simsym engine (vf/custom.py: unit_random_choice)."""
import os
import sys

sys.path.insert(0, os.environ.get("VERIF_REPO", "/repo"))
from ciw.auxiliary import random_choice  # noqa: E402


def post_weighted(result: int, p0: float, p1: float) -> bool:
    probs = [p0, p1, 1.0 - p0 - p1]
    return 0 <= result <= 2 and probs[result] > 0.0


def k_weighted3(p0: float, p1: float) -> int:
    """
    pre: 0.0 <= p0 <= 1.0 and 0.0 <= p1 <= 1.0 and p0 + p1 <= 0.875
    post: post_weighted(_, p0, p1)
    """
    return random_choice([0, 1, 2], [p0, p1, 1.0 - p0 - p1])


def post_weighted2(result: int, p0: float) -> bool:
    probs = [p0, 1.0 - p0]
    return 0 <= result <= 1 and probs[result] > 0.0


def k_weighted2(p0: float) -> int:
    """
    pre: 0.0 <= p0 <= 1.0
    post: post_weighted2(_, p0)
    """
    return random_choice([0, 1], [p0, 1.0 - p0])


def k_uniform(n: int) -> int:
    """
    pre: 1 <= n <= 6
    post: 0 <= _ < n
    """
    return random_choice(list(range(n)))
